"""C19 — grid summarising conserves observations and aggregates per cell
(tracklib/core/raster.py Raster / AFMap / getCell / addAFMap / addCollectionToRaster / computeAggregates as calls on ONE
raster object, algo/summarising.py summarize, core/utils.py co_*)."""
import math, statistics, itertools, copy, json, os
from fractions import Fraction
from engine import Prop, fbits, bitsf, ratstr, parse_rat, tok_list, untok, close

NAN = float("nan")
NO_DATA = -99999.0
OPS = ["co_count", "co_sum", "co_min", "co_max", "co_avg", "co_median"]
OPCH = {"co_count": "c", "co_sum": "s", "co_min": "m", "co_max": "M", "co_avg": "a", "co_median": "d"}
DEFAULT_AGGS = [["v", o] for o in OPS] + [["uid", "co_count"]]
ERRNAMES = {"AttributeError": "attr", "KeyError": "key", "IndexError": "index", "TypeError": "type", "NameError": "name"}
BUILTIN_FEATS = ("uid", "x", "y", "idx")
RES = [(1, 1), (0.5, 0.5), (2, 1), (1, 2), (1.5, 1), (0.5, 2), (3, 1), (1, 3), (2, 2), (0.25, 0.5), (1, 1.5)]
# cell sizes of the near-integral float extents: (hi - lo) / r = k up to a few units in the last place
NI_RES = [0.1, 0.2, 0.3, 0.7, 0.05, 1 / 3, 0.6, 1.1, 2.5, 60.0, 0.01, 0.5, 1.0, 100.0]
# scripts creating the features v, w of one track ("-x" = removeAnalyticalFeature): final ranks (v, w) = (0,1) (1,0) (1,2) (0,2) (0,1) (0,1) (1,0) (0,1) (1,0)
LAYOUTS = [None, ["w", "v"], ["aux", "v", "w"], ["v", "aux", "w"], ["tmp", "v", "-tmp", "w"], ["tmp", "v", "w", "-tmp"],
           ["v", "w", "-v", "v"], ["v", "w", "-w", "w"], ["aux", "w", "v", "-aux"]]
ENU_EPS = 1e-4          # ENUCoords.__eq__ calls two positions equal when they differ by less than this on every axis


def ulps(v, n):
    """the float n units in the last place above (n > 0) / below (n < 0) v"""
    for _ in range(abs(n)):
        v = math.nextafter(v, math.inf if n > 0 else -math.inf)
    return v


def isnan(v):
    return isinstance(v, float) and v != v


def fr(v):
    return Fraction(v)


class BuildFailure(Exception):
    """the harness could not build the objects of a case (tracks, features): not a verdict on the property"""


class P(Prop):
    id = "C19"
    design_ref = "DESIGN.md section 5, C19"
    theorems = [
        ("TracklibVerif.Props.C19", "TV.C19.cell_footprint", "a point of the extent gets a cell 0<=col<ncol, 0<=line<nrow whose footprint (half-open, closed on the outer top/right) contains it, and no other cell's footprint does"),
        ("TracklibVerif.Props.C19", "TV.C19.cell_outside", "a point outside the extent gets no cell"),
        ("TracklibVerif.Props.C19", "TV.C19.conservation", "the scatter never fails; cell (i,j) holds exactly the values of the observations whose getCell is (j,i); sizes sum to the number of observations, any per-value weight (e.g. non-NaN) is conserved"),
        ("TracklibVerif.Props.C19", "TV.C19.aggregate_spec", "co_count/co_sum/co_min/co_max/co_avg/co_median = that aggregate over the non-NaN values; no non-NaN value -> 0 for count and sum, no-data otherwise"),
        ("TracklibVerif.Props.C19", "TV.C19.aggregates_entry", "computeAggregates writes, in (line i, column j), the operator's value on that cell with NaN replaced by the no-data value"),
        ("TracklibVerif.Props.C19", "TV.C19.aggregatesN_entry", "computeAggregates on a raster whose no-data value is nd (None included): entry (i,j) is the operator's value on the cell, nd when it is NaN; a cell without a non-NaN value holds 0 for count / sum and the raster's OWN no-data value otherwise"),
        ("TracklibVerif.Props.C19", "TV.C19.session_geometry", "no call on a raster (addAFMap, addCollectionToRaster, computeAggregates, setNoDataValue; failing calls included) changes the grid geometry; one outcome per call"),
        ("TracklibVerif.Props.C19", "TV.C19.add_collection_spec", "addCollectionToRaster REPLACES the values: on a raster in any state, for a collection inside the extent whose tracks have every feature of the bands, it does not raise, leaves bands / geometry / no-data untouched, keeps values for exactly the features of the bands, and cell (i,j) of a feature holds exactly that feature's values of the observations of THIS collection whose getCell is (j,i)"),
        ("TracklibVerif.Props.C19", "TV.C19.add_collection_conservation", "conservation on a raster with a history: after addCollectionToRaster the cell sizes of every feature add up to the number of observations of THIS collection, and any per-value weight (non-NaN: the co_count total) is conserved"),
        ("TracklibVerif.Props.C19", "TV.C19.add_collection_outside", "an observation outside the extent (every track having every feature, at least one band): addCollectionToRaster raises TypeError, bands and geometry untouched"),
        ("TracklibVerif.Props.C19", "TV.C19.obs_cover", "the observations scattered for a feature a track has are all its positions, in order"),
        ("TracklibVerif.Props.C19", "TV.C19.add_collection_missing_feature", "a track lacking a feature of the bands: AnalyticalFeatureError, and every cell of every feature is left empty (the earlier collection's values are gone)"),
        ("TracklibVerif.Props.C19", "TV.C19.session_spec", "invariant over call sequences: after ANY calls, then a well-formed addCollectionToRaster(T), then any calls other than addCollectionToRaster (bands added later, ...), then computeAggregates with every band <feature>#<operator>: neither raises, and EVERY band, whatever it held before, holds its operator over exactly the values of the observations of T located in each cell, NaN -> the raster's own no-data value as it is at that call (constructor's novalue or the last setNoDataValue)"),
        ("TracklibVerif.Props.C19", "TV.C19.summarize_spec", "one-shot corollary, end to end: on every collection of non-empty tracks (a north-south / east-west line of observations or a single one included: one column / one row), distinct (feature, operator) pairs, every track having every feature, summarize never fails nor returns 0, builds a well-formed grid covering all observations with one band per pair in call order, each band = its operator over exactly the located values, NaN -> NO_DATA_VALUE (the no-data value of the raster summarize builds)"),
        ("TracklibVerif.Props.C19", "TV.C19.rat_floor_ceil", "the driver's Rat.floor / Rat.ceil are the Int.floor / Int.ceil of the theorems"),
        ("TracklibVerif.Props.C19", "TV.C19.rounded_cell_in_grid", "in FLOATING-POINT arithmetic (the same model at rationals with every operation rounded; any monotone rounding with relative error u that keeps the integers up to the grid size): on the grid the constructor computes, every point of the extent, borders included, whatever rounding did to extent / resolution, gets a cell 0<=col<ncol, 0<=line<nrow (no IndexError, no wrap-around through a negative index) whose footprint contains it up to the rounding allowance ((x - xmin)(1 -+ u)^2 between the cell's edges; + u nrow ry for the lines)"),
        ("TracklibVerif.Props.C19", "TV.C19.rounded_conservation", "conservation for floats: with any monotone rounding that keeps the integers up to the grid size (no error bound needed) the scatter never fails, every value lands in exactly one cell of the grid, sizes sum to the number of observations, any per-value weight is conserved"),
        ("TracklibVerif.Props.C19", "TV.C19.rounded_extent_contains_bbox", "the extent under rounding: for any monotone rounding with rnd 0 = 0, a bounding box of representable numbers and margin >= 0, the margin-enlarged extent the constructor computes in floats still contains the bounding box and is not inverted (every observation of the collection meets the hypotheses of rounded_cell_in_grid / rounded_conservation)"),
        ("TracklibVerif.Props.C19", "TV.C19.scatter_stops_at_outside", "the scatter loop meeting an observation outside the extent: the observations before it are in their cells, TypeError there, nothing after it is scattered (the partial state addCollectionToRaster leaves in a feature's grid)"),
        ("TracklibVerif.Props.C19Layout", "TV.C19.add_collection_by_name", "addCollectionToRaster depends on the tracks only through their positions and their values BY NAME for the features of the bands (any scalar type, floats included; any raster state, failing calls included)"),
        ("TracklibVerif.Props.C19Layout", "TV.C19.track_layout_sound", "a track whose features are built by ANY script of createAnalyticalFeature / removeAnalyticalFeature / setObsAnalyticalFeature calls on the concrete table (dictionary of ranks + Obs.features): what is read through the ranks is the table's content by name after the same script; one value per observation for every feature; no name twice"),
        ("TracklibVerif.Props.C19Layout", "TV.C19.add_collection_layout_independent", "two collections whose tracks were built by different scripts (creation order, extra / temporary / re-created features) with the same content by name are scattered alike: same raster state, same outcome"),
        ("TracklibVerif.Props.C19", "TV.C19.computed_bands_persist", "computeAggregates is the only call that writes into a band: after ANY other calls on a raster in any state (setNoDataValue with any value, any number of times; addAFMap; addCollectionToRaster; failing calls included) the geometry is the same, every band of before is still there, in place, with the very grid it held, the bands added since have new names, getAFMap(name) returns what it returned"),
        ("TracklibVerif.Props.C19", "TV.C19.session_spec_after_setters", "session_spec read later: after its computeAggregates, then any calls other than computeAggregates (setNoDataValue to 0 / a count / a value a cell really holds, several times in a row; addAFMap), EVERY band it wrote still holds its operator over exactly the located values of T; a cell without value: 0 for count / sum, otherwise the no-data value the raster had AT that computeAggregates, not the current one"),
        ("TracklibVerif.Props.C19", "TV.C19.compute_failing_bands", "a failing computeAggregates: the bands before the first band that raises are rewritten, that band and the following ones are exactly as they were, nothing else of the raster changes"),
        ("TracklibVerif.Props.C19Partial", "TV.C19.add_collection_partial", "WHAT HAS BEEN WRITTEN when the TypeError of an observation outside the extent leaves addCollectionToRaster (any raster state, tracks before the failing one inside the extent, every track having every feature): TypeError, bands / geometry / no-data untouched, the replaced dictionary has the features of the bands in iteration order, and cell (i,j) of feature af holds exactly the values of af of the observations written — a prefix of the for trace: for afname: for i: order: every observation of the tracks before the failing one for every feature and, for the FIRST feature of the iteration order only, the observations of the failing track before its first one outside; nothing of the failing track for the other features, nothing of the later tracks"),
        ("TracklibVerif.Props.C19Partial", "TV.C19.add_collection_partial_total", "add_collection_partial covers EVERY TypeError of add_collection_outside: a collection with an observation outside the extent splits at its FIRST track with one (the tracks before it inside the extent), and what addCollectionToRaster leaves is the written prefix for that split"),
        ("TracklibVerif.Props.C19Partial", "TV.C19.partial_conservation", "'conserves observations' on the exception path: after the failing addCollectionToRaster the cell sizes of a feature add up to the number of observations WRITTEN for it (that prefix), any per-value weight (non-NaN: the co_count total) is conserved on them — nothing written twice, nothing written lost"),
        ("TracklibVerif.Props.C19Partial", "TV.C19.partial_then_compute", "a later computeAggregates aggregates exactly what was written: after the failing addCollectionToRaster (caught), any calls other than addCollectionToRaster (setNoDataValue, addAFMap, computeAggregates), then computeAggregates with every band <feature>#<operator>: it does not raise and EVERY band holds its operator over exactly the written observations of its feature located in each cell, NaN -> the raster's no-data value at that call"),
    ]
    partial = []
    open_statements = ["IEEE rounding inside the cell operators (the running sums of co_sum / co_avg, the half-sum of co_median) is outside the theorems "
                       "(aggregate_spec is a field statement); sampled by the transfer check on the float streams. The grid geometry under rounding is proved "
                       "(rounded_cell_in_grid, rounded_conservation), and so is that the margin-enlarged extent still contains the bounding box under rounding "
                       "(rounded_extent_contains_bbox: any monotone rounding with rnd 0 = 0 that leaves the four bounding-box numbers, floats themselves, unchanged)",
                       "the exception path of addCollectionToRaster is stated for the TypeError of an observation outside the extent (add_collection_partial, partial_conservation, "
                       "partial_then_compute) under the hypothesis that every track has every feature with one value per observation (what the AnalyticalFeatureError test and the Track API guarantee); "
                       "they are field statements about the model at exact floor — which float observation counts as outside is the comparison of getCell (tie_getCell), compared on the float streams",
                       ]
    modelled = ("core/raster.py: Raster.__init__ (margin, ncol/nrow = max(1, ceil(..))), getCell, and the Raster object as a state machine (Model/RasterSession.lean): "
                "the bands (AFMap.__init__ name / grid checks, addAFMap with and without grid, getNamesOfAFMap order), collectionValuesGrid (absent before the first collection), "
                "addCollectionToRaster (features = band names up to '#', the dictionary REPLACED, AnalyticalFeatureError test after the replacement, scatter loop "
                "track x feature x observation with Python list indexing, TypeError on an observation outside the grid leaving the partial scatter), computeAggregates (bands in "
                "insertion order, IndexError / AttributeError / KeyError / NameError at the first cell of a band, NaN -> the raster's current no-data value, None included — fix 279f7b2), get/setNoDataValue (the setter stores the value and touches no band), getAFMap(name) (getBand); "
                "algo/summarising.py summarize (argument checks, bounding box, one addAFMap per (feature, operator) in call order via AFMap.getMeasureName, add, compute); "
                "core/track.py hasAnalyticalFeature / getObsAnalyticalFeature for uid, x, y, idx and the track's own features, read through the track's OWN dictionary of ranks: "
                "the feature table of a track (Model/RasterLayout.lean on the table model of C01, Model/Features.lean: __analyticalFeaturesDico + Obs.features, createAnalyticalFeature(name, list), "
                "removeAnalyticalFeature with its shift of the later ranks, setObsAnalyticalFeature) — a track that comes with a layout script is built by the driver on that table and the raster model reads it by rank; "
                "core/utils.py co_count co_sum co_min co_max co_avg co_median; the collection's bounding box is modelled as min/max of the coordinates. "
                "The geometry definitions (mkGrid, getCell, scatter) are also instantiated at rationals with every operation rounded (Lemmas/RasterRounded.lean: RQ rnd) for the floating-point theorems")
    trusted = ["math.floor / math.ceil / float.is_integer are taken as exact floor, ceiling and integrality of the float;",
               "the iteration order of the Python set of features in addCollectionToRaster is recomputed by the harness (same insertions, same process) and passed to the model; "
               "it only matters for the values left behind when the scatter raises;",
               "a band name crosses the protocol as its '#'-separated parts;",
               "the harness builds the tracks (Track / Obs / addObs, the feature script) with tracklib's own Track API: a failure there is reported as 'harness:build' "
               "(a correspondence disagreement, no oracle verdict), the oracle reads the expected feature values from the case, never from the Track object"]
    rule = ("exhaustive: grids over [0,W]x[0,H] (W,H in 1..3) for every listed resolution, getCell of every half-integer lattice point in [-0.5,W+0.5]x[-0.5,H+0.5]; "
            "one-track collections (0,0),(2,2),p for every lattice p in [0,2]^2, every listed resolution; "
            "every north-south and east-west line of 1..4 observations (steps 0.5 and 1; 1 observation = a single fix) for every listed resolution, margins 0 and 0.25 "
            "(extent of zero width / height: one column / one row); "
            "every sequence of 1..5 calls from {addAFMap(v#co_count), addCollectionToRaster(c0), addCollectionToRaster(c1), computeAggregates} on ONE raster "
            "(thorough: 1..6 calls, addAFMap(w#co_median) too); "
            "every sequence of 1..3 calls from {setNoDataValue(0), setNoDataValue(1), setNoDataValue(-99999.0), setNoDataValue(None), computeAggregates} on a raster whose bands "
            "(v#co_count, v#co_min, w#co_sum, w#co_avg; cells holding genuine 0, 1, -1, -99999.0) have just been computed, constructor novalue in {default, 0, 1, None}; "
            "random: 1..3 tracks on a half-integer lattice (cell borders, outer border, corners; 1 in 4 collections lies on one vertical or horizontal line or at a single position), square and non-square resolutions, margins 0/0.125/0.25/0.5 at Rat "
            "and 0.05/0.1/0.3 at Float, random float coordinates at Float (1 in 6 on one line / at one position); two features v, w with NaN plus uid; "
            "ONE summarize call per case with several (feature, operator) pairs in a generated order (all six operators on v shuffled, or 2..4 operators on v "
            "in any order mixed with operators on w and uid; median first / in the middle / last), every produced grid is checked; 1 in 5 cases summarises the same "
            "collection twice; exhaustive: every ordered pair and triple of distinct operators on one feature over a fixed collection; "
            "SESSIONS on one Raster object (Rat lattice and Float): 2..3 collections over one study area (tracks with 0..5 observations, a track may lack w), the raster built on an explicit "
            "box / on collection 0's bounding box / returned by summarize() / on a box too small; templates reuse (bands, then add+compute for 2..3 collections), summ-reuse (another "
            "collection scattered on the raster summarize returned), late-band (bands added after a pass, for scattered and for new features), change (feature values rewritten between add and "
            "compute and before a second add), two-rasters (two rasters from the SAME Bbox object), nodata (Raster(novalue=x | None), setNoDataValue before the bands / between add and compute / between two computes; 1 in 4 of the other sessions has its own novalue too), remark (the no-data value changed AFTER computeAggregates / on the raster summarize() returned: 1..3 setNoDataValue calls in a row, then possibly addAFMap + setNoDataValue, "
            "another computeAggregates + setNoDataValue, another collection; the constructor's novalue and the new values drawn from markers that COLLIDE with genuine aggregates: 0 (count / sum of every cell "
            "without value), 1, 2, -1, values the feature takes, their sum, the uid, the default marker, None), errors (compute before add, names taken / empty / without '#' / unknown operator, explicit "
            "grids of right and wrong shape, observations outside), soup (3..9 random calls incl. summarize in scalar / callable / duplicated / ragged / empty argument forms, features x, y, idx); "
            "exhaustive exception path (partial-enum): 2 and 3 tracks of 3 observations with v, w over [0,2]^2, every single observation in turn moved outside the extent, bands on v and w in both orders, then computeAggregates, setNoDataValue(-1), computeAggregates; "
            "after every call the whole object state (geometry, no-data, every band, collectionValuesGrid) is compared with the model (the bands as a set of named grids: their order is not part of the property); the oracle checks, after every well-formed "
            "addCollectionToRaster, the footprint of every observation's cell and the values kept per cell, and after every computeAggregates EVERY band against the collection scattered LAST; "
            "after every setNoDataValue / addAFMap that follows a validated computeAggregates or summarize the bands it wrote are read AGAIN: a cell with values holds its aggregate, a cell without "
            "holds 0 for count / sum and, otherwise, the marker of the call that wrote the band or the raster's current one (the statement says 'the no-data value': both are accepted), counts still sum to the number of non-NaN values; "
            "FEATURE LAYOUTS: the rank of a feature in Obs.features is per track; half of the generated collections (summarize cases of every stream and sessions) give every track its own "
            "layout script — the features created in another order, an extra feature 'aux' created before / between them and kept, a temporary feature removed after others were created (their ranks move down), "
            "a feature removed and created again (now the last one) — so that the summarised feature has different ranks on the tracks of one collection (about 1 collection in 4); filler values of the extra "
            "columns are values no feature of the case takes (NaN 1 in 4); exhaustive: two tracks with every ordered pair of 9 scripts, as one summarize call and as calls on one raster; "
            "sessions: delfeat (removeAnalyticalFeature on ONE track between / before the scatters, most of the time followed by a setfeat that re-creates it at the last rank); "
            "direct calls of the cell operators in sequence on ONE list (every ordered pair on fixed lists, random sequences), checking the values and that the list "
            "is left unchanged. "
            "NEAR-INTEGRAL FLOAT EXTENTS (Float): per axis a cell size from 14 values (0.1, 0.3, 1/3, 0.7, 60, ...), k = 1..6 cells, an origin (0.1, 0.2, -0.7, 1000.1, random, a multiple of the cell), "
            "the upper bound lo + k r / (1 + 2 margin) moved by -3..+3 ulps (3 in 10: by 1e-13..1e-5 of a cell more): extent / resolution = k - few ulp | k | k + few ulp | k +- 1e-13..1e-5; observations ON the four borders / corners, "
            "within 2 ulps or 1e-13..1e-5 of a cell of a border and of every cell edge, anywhere; margins 0 (half of the cases) / 0.05 / 0.1 / 0.25 / 0.5; as summarize calls, as getCell probes on an explicit box (points 1 ulp outside too), as sessions on one raster. "
            "MICRO-STEPS (Rat: dyadic steps 2^-14..2^-16, Float: 1.5e-5..9.5e-5): tracks that drift by steps smaller than the ENUCoords equality tolerance (1e-4) across a vertical edge, a horizontal edge, "
            "a cell corner (both axes at once), forwards and backwards, stay on a spot (repeated fix), jump; feature values all different powers of two (a cell sum identifies its members), v#co_sum and uid#co_count always among the aggregates; "
            "as summarize calls and as sessions (reuse / summarize-reuse / change). "
            "ORACLE: every observation is located by exact rational arithmetic on the float values (column = the c with xmin + c rx <= x < xmin + (c+1) rx, closed on the outer border; lines from the top), independently of getCell; "
            "on the float streams a coordinate within 2^-40 (relative to the largest magnitude among the coordinate, the extent bounds and the cell size) of an edge is accepted on either side (rounded_cell_in_grid bounds what a float formula of this kind can do by ~2^-51 of the extent); "
            "getCell's answer, the values kept per cell and every band are checked against that location, observation by observation. "
            "non-trivial = a grid of at least 2 cells and at least 2 observations (sum), any (cell, op), a session that scatters and aggregates")

    def setup(self):
        from tracklib.core.obs import Obs
        from tracklib.core.obs_coords import ENUCoords
        from tracklib.core.obs_time import ObsTime
        from tracklib.core.track import Track
        from tracklib.core.track_collection import TrackCollection
        from tracklib.core.bbox import Bbox
        from tracklib.core.raster import Raster
        from tracklib.algo.summarising import summarize
        import tracklib.core.utils as U
        self.Obs, self.ENU, self.T, self.Track, self.TC = Obs, ENUCoords, ObsTime, Track, TrackCollection
        self.Bbox, self.Raster, self.summarize = Bbox, Raster, summarize
        self.opf = {o: getattr(U, o) for o in OPS}
        from tracklib.core.raster import AFMap
        self.AFMap = AFMap
        self._names = {}

    # ---------------------------------------------------------------- generators
    def exhaustive_scopes(self, tier):
        return ["getCell of every half-integer lattice point of [-0.5,W+0.5]x[-0.5,H+0.5] on the grids over [0,W]x[0,H], W,H in 1..3, for %d resolutions" % len(RES),
                "collections {(0,0),(2,2),p}, p over the 25 half-integer lattice points of [0,2]^2, %d resolutions, margin 0" % len(RES),
                "collections of 1..4 observations on one north-south or east-west line (steps 0.5 and 1), %d resolutions, margins 0 and 0.25" % len(RES),
                "two tracks with the features v, w built by every ordered pair of %d layout scripts (creation order, an extra feature before / between, a temporary feature removed, "
                "a feature removed and created again), as one summarize call and as addAFMap* / addCollectionToRaster / computeAggregates on one raster" % len(LAYOUTS),
                "one summarize call with every ordered pair (30) and every ordered triple (120) of distinct operators on the same feature, fixed collection with NaN-free, mixed and all-NaN cells",
                "every ordered pair (36, including the same operator twice) of cell operators called in sequence on one list, for 6 fixed lists",
                "every sequence of 1..3 calls from {setNoDataValue(0), setNoDataValue(1), setNoDataValue(-99999.0), setNoDataValue(None), computeAggregates} after "
                "addAFMap x 4, addCollectionToRaster, computeAggregates on a raster built with novalue default / 0 / 1 / None (620 sessions), the bands read again after every call",
                "the exception path of addCollectionToRaster: 2 and 3 tracks of 3 observations with features v, w over [0,2]^2, every single observation (track, rank) moved outside the extent "
                "(two outside positions), bands on v and w added in both orders, then computeAggregates, setNoDataValue(-1), computeAggregates (60 sessions): the partial grids and the bands compared after every call",
                "every sequence of 1..%d calls from {addAFMap(v#co_count), %saddCollectionToRaster(c0), addCollectionToRaster(c1), computeAggregates} on one raster over [0,2]^2 with unit cells (%d sessions), "
                "the whole object state compared after every call" % ((5, "", 1364) if tier == "quick" else (6, "addAFMap(w#co_median), ", 19530))]

    def cases(self, rng, tier):
        out = []
        for W in (1, 2, 3):
            for H in (1, 2, 3):
                for res in RES:
                    pts = [[i / 2, j / 2] for i in range(-1, 2 * W + 2) for j in range(-1, 2 * H + 2)]
                    out.append({"kind": "cell", "mode": "q", "box": [0, W, 0, H], "res": list(res), "margin": 0, "pts": pts})
        for res in RES:
            for i in range(5):
                for j in range(5):
                    out.append({"kind": "sum-enum", "mode": "q", "tracks": [[[0, 0, 1.0], [2, 2, 2.0], [i / 2, j / 2, 4.0]]],
                                "res": list(res), "margin": 0})
        # extents of zero width / height: every line of 1..4 observations (1 = a single fix), both directions
        for res in RES:
            for n in (1, 2, 3, 4):
                for step in (0.5, 1.0):
                    if n == 1 and step != 1.0:
                        continue
                    for vert in (True, False):
                        for mg in (0, 0.25):
                            vs = [1.0, "nan", 3.0, -2.0]
                            tr = [[1.0 if vert else k * step, k * step if vert else 2.0, vs[k]] for k in range(n)]
                            out.append({"kind": "sum-line-enum", "mode": "q", "tracks": [tr], "res": list(res), "margin": mg})
        # several aggregates of one feature in one call, in every order
        fixed = [[[0, 0, 3.0, 1.0], [0.5, 0.5, 1.0, "nan"], [0.25, 0.75, 2.0, 2.0], [1.5, 0.5, "nan", 4.0], [1.5, 0.25, 5.0, 4.0]],
                 [[0.5, 1.5, "nan", 7.0], [1.5, 1.5, 4.0, 0.5], [2, 2, 6.0, "nan"], [1.25, 1.75, 4.0, 1.5], [0.75, 0.25, -1.0, 3.0]]]
        for k in (2, 3):
            for perm in itertools.permutations(OPS, k):
                out.append({"kind": "sum-aggs-enum", "mode": "q", "tracks": fixed, "res": [1, 1], "margin": 0,
                            "aggs": [["v", o] for o in perm] + [["uid", "co_count"]]})
        # two tracks of one collection, every ordered pair of feature layouts (same features, ranks that differ or not)
        lay_aggs = [["v", o] for o in OPS] + [["w", "co_sum"], ["w", "co_count"], ["uid", "co_count"]]
        for la in LAYOUTS:
            for lb in LAYOUTS:
                out.append({"kind": "sum-layout-enum", "mode": "q", "tracks": fixed, "res": [1, 1], "margin": 0, "aggs": lay_aggs,
                            "layouts": [la, lb]})
                colls = [[{"uid": i + 1, "pts": [[o[0], o[1]] for o in tr], "f": {"v": [o[2] for o in tr], "w": [o[3] for o in tr]}}
                          for i, tr in enumerate(fixed)]]
                for t, l in zip(colls[0], (la, lb)):
                    if l is not None:
                        t["layout"] = l
                out.append({"kind": "session", "mode": "q", "tpl": "layout-enum", "colls": colls,
                            "ops": [["new", {"of": 0}, [1, 1], 0, None]] + [["band", f + "#" + o] for f, o in lay_aggs] + [["add", 0], ["compute"]]})
        lists = [[1.0, 2.0, 3.0], [2.0, 1.0], [5.0], ["nan", 1.0, 2.0], ["nan"], []]
        for vals in lists:
            for a in OPS:
                for b in OPS:
                    out.append({"kind": "op", "mode": "q", "vals": vals, "order": [a, b]})
        out += list(self.session_enum(tier))
        out += list(self.remark_enum())
        out += list(self.partial_enum())
        nrand = 2500 if tier == "quick" else 40000
        for _ in range(nrand // 2):
            out.append(self.session(rng, "q"))
        for _ in range(nrand // 4):
            out.append(self.session(rng, "f"))
        for _ in range(nrand // 2):
            n = rng.randrange(0, 8)
            out.append({"kind": "op", "mode": "q", "vals": self.values(rng, n),
                        "order": [rng.choice(OPS) for _ in range(rng.randrange(2, 7))]})
        for _ in range(nrand):
            out.append(self.lattice(rng, "q"))
        for _ in range(nrand // 2):
            out.append(self.lattice(rng, "f"))
        for _ in range(nrand // 2):
            out.append(self.floaty(rng))
        for _ in range(nrand // 5):
            out.append(self.cellcase(rng))
        # float extents that are a whole number of cells up to rounding, observations ON the borders and within ulps of the edges
        for _ in range(nrand // 4):
            out.append(self.nearint(rng))
        for _ in range(nrand // 10):
            out.append(self.nearint_cell(rng))
        for _ in range(nrand // 10):
            out.append(self.session(rng, "f", geom=self.ni_geom(rng)))
        # consecutive observations closer than the ENUCoords equality tolerance (0.1 mm), cell edges between them
        for _ in range(nrand // 5):
            out.append(self.micro(rng, "q"))
        for _ in range(nrand // 8):
            out.append(self.micro(rng, "f"))
        for _ in range(nrand // 10):
            out.append(self.session(rng, "q", tpl=rng.choice(["reuse", "summ-reuse", "change"]), walk=True))
        for _ in range(nrand // 16):
            out.append(self.session(rng, "f", tpl=rng.choice(["reuse", "summ-reuse"]), walk=True))
        return out

    # ---- float extents within rounding of a whole number of cells
    def ni_axis(self, rng, mg):
        """[lo, hi] and a cell size r with (hi - lo) * (1 + 2 mg) / r = k up to a few units in the last place, from below, exactly, from above"""
        r = rng.choice(NI_RES)
        k = rng.randrange(1, 7)
        lo = rng.choice([0.0, 0.1, 0.2, 0.3, -0.7, 1000.1, rng.uniform(-100, 100), r * rng.randrange(-5, 6), rng.uniform(-1e4, 1e4)])
        hi = ulps(lo + k * r / (1 + 2 * mg), rng.choice([-3, -2, -1, 0, 0, 1, 2, 3]))
        if rng.random() < 0.3:                                      # ... or by 1e-13 .. 1e-5 of a cell
            hi = max(hi + rng.choice([-1, 1]) * r * 10 ** -rng.uniform(5, 13), ulps(lo, 1))
        return lo, hi, r, k

    def ni_near(self, rng, v, r):
        """v itself, a few ulps away, or 1e-13 .. 1e-5 of a cell away"""
        w = rng.random()
        if w < 0.3:
            return v
        if w < 0.75:
            return ulps(v, rng.choice([-2, -1, 1, 2]))
        return v + rng.choice([-1, 1]) * r * 10 ** -rng.uniform(5, 13)

    def ni_coord(self, rng, ax, mg):
        """a coordinate of [lo, hi]: a border, within ulps of a border, within ulps of a cell edge, anywhere"""
        lo, hi, r, k = ax
        w = rng.random()
        if w < 0.2:
            v = lo
        elif w < 0.45:
            v = hi
        elif w < 0.55:
            v = self.ni_near(rng, rng.choice([lo, hi]), r)
        elif w < 0.8:
            v = self.ni_near(rng, lo - mg * (hi - lo) + rng.randrange(0, k + 1) * r, r)
        else:
            v = rng.uniform(lo, hi)
        return min(max(v, lo), hi)

    def ni_geom(self, rng):
        mg = rng.choice([0, 0, 0, 0, 0.05, 0.1, 0.25, 0.5])
        return {"x": self.ni_axis(rng, mg), "y": self.ni_axis(rng, mg), "mg": mg}

    def nearint(self, rng):
        g = self.ni_geom(rng)
        tracks = []
        for _ in range(rng.randrange(1, 4)):
            n = rng.randrange(1, 7)
            vs, ws = self.values(rng, n), self.values(rng, n)
            tracks.append([[self.ni_coord(rng, g["x"], g["mg"]), self.ni_coord(rng, g["y"], g["mg"]), vs[k], ws[k]] for k in range(n)])
        # the extent is the whole box: the four borders carry observations (corners in either pairing)
        xs, ys = [g["x"][0], g["x"][1]], [g["y"][0], g["y"][1]]
        if rng.random() < 0.5:
            ys.reverse()
        tracks[0].insert(rng.randrange(0, len(tracks[0]) + 1), [xs[0], ys[0], rng.choice([1.0, 2.5, "nan"]), 1.0])
        tracks[-1].insert(rng.randrange(0, len(tracks[-1]) + 1), [xs[1], ys[1], rng.choice([4.0, -3.5, "nan"]), rng.choice([2.0, "nan"])])
        return self.sum_layouts(rng, {"kind": "sum-nearint", "mode": "f", "tracks": tracks, "res": [g["x"][2], g["y"][2]], "margin": g["mg"],
                                      "aggs": self.rand_aggs(rng), "runs": 1})

    def nearint_cell(self, rng):
        g = self.ni_geom(rng)
        pts = []
        for _ in range(12):
            p = [self.ni_coord(rng, g["x"], g["mg"]), self.ni_coord(rng, g["y"], g["mg"])]
            if rng.random() < 0.15:                                   # just outside / on the enlarged border
                i = rng.randrange(2)
                ax = g["xy"[i]]
                d = g["mg"] * (ax[1] - ax[0])
                p[i] = ulps(rng.choice([ax[0] - d, ax[1] + d]), rng.choice([-1, 0, 1]))
            pts.append(p)
        return {"kind": "cell", "mode": "f", "box": [g["x"][0], g["x"][1], g["y"][0], g["y"][1]], "res": [g["x"][2], g["y"][2]],
                "margin": g["mg"], "pts": pts}

    # ---- walks with steps below the ENUCoords equality tolerance
    def walk_axis(self, rng, mode, lo, hi, edges, n):
        """n successive coordinates in [lo, hi]: a drift by steps < 0.1 mm across one of the `edges`, or a constant"""
        if mode == "q":
            h = rng.choice([2.0 ** -14, 2.0 ** -15, 2.0 ** -16, 3 * 2.0 ** -16])
        else:
            h = rng.uniform(1.5e-5, 9.5e-5)
        e = rng.choice(edges)
        k0 = rng.randrange(-(n - 1), 1) if n > 1 else rng.choice([-1, 0, 1])     # the walk starts k0 steps before the edge
        if mode == "q":
            off = rng.choice([0, 0, 0.5]) * h                        # dyadic offsets: exact in both arithmetics
        else:
            off = rng.uniform(0, 1) * h
        sgn = rng.choice([1, -1])
        return [min(max(e + sgn * ((k0 + i) * h + off), lo), hi) for i in range(n)]

    def walk(self, rng, mode, box, res, mg, n):
        """n successive positions inside `box` = [x0, x1, y0, y1]; the cell edges are those of the raster built on the box"""
        x0, x1, y0, y1 = box
        gx0, gy0 = x0 - mg * (x1 - x0), y0 - mg * (y1 - y0)
        ex = [gx0 + j * res[0] for j in range(0, int((x1 - gx0) / res[0]) + 2) if x0 <= gx0 + j * res[0] <= x1] or [x0]
        ey = [gy0 + j * res[1] for j in range(0, int((y1 - gy0) / res[1]) + 2) if y0 <= gy0 + j * res[1] <= y1] or [y0]
        pts = []
        while len(pts) < n:
            m = min(n - len(pts), rng.randrange(1, 6))
            how = rng.choice(["x", "y", "xy", "x", "y", "stay", "jump"])
            if how == "jump":
                pts.append([rng.choice(ex + [rng.uniform(x0, x1) if mode == "f" else x0 + rng.randrange(0, 5) * (x1 - x0) / 4]),
                            rng.choice(ey + [rng.uniform(y0, y1) if mode == "f" else y0 + rng.randrange(0, 5) * (y1 - y0) / 4])])
                continue
            if pts and rng.random() < 0.3:
                bx, by = pts[-1]
            else:
                bx = rng.choice(ex) if mode == "q" else rng.uniform(x0, x1)
                by = rng.choice(ey) if mode == "q" else rng.uniform(y0, y1)
                if mode == "q":
                    bx = min(max(bx + rng.choice([0, 0.25, -0.25, 0.5]) * res[0], x0), x1)
                    by = min(max(by + rng.choice([0, 0.25, -0.25, 0.5]) * res[1], y0), y1)
            X = self.walk_axis(rng, mode, x0, x1, ex, m) if "x" in how else [bx] * m
            Y = self.walk_axis(rng, mode, y0, y1, ey, m) if "y" in how else [by] * m
            pts += [[a, b] for a, b in zip(X, Y)]
        return pts

    def micro(self, rng, mode):
        if mode == "q":
            W, H = rng.randrange(1, 4), rng.randrange(1, 4)
            ox, oy = rng.choice([0, 0, -3, 10, 0.5]), rng.choice([0, 0, 5, -7, -0.5])
            res = list(rng.choice(RES))
            mg = rng.choice([0, 0, 0, 0.125, 0.25, 0.5])
        else:
            W, H = rng.choice([1.0, 10.0, 120.0, 1000.0]), rng.choice([1.0, 10.0, 120.0, 1000.0])
            ox, oy = rng.choice([0.0, rng.uniform(-1e3, 1e3)]), rng.choice([0.0, rng.uniform(-1e3, 1e3)])
            res = [W / rng.choice([1, 2, 3, 4.5]), H / rng.choice([1, 2, 3, 4.5])]
            mg = rng.choice([0, 0, 0.05, 0.1])
        box = [ox, ox + W, oy, oy + H]
        tracks, val = [], 1.0
        for _ in range(rng.randrange(1, 4)):
            n = rng.randrange(2, 10)
            tr = []
            for p in self.walk(rng, mode, box, res, mg, n):
                # every value a different power of two: a sum identifies the set of observations behind it
                tr.append([p[0], p[1], "nan" if rng.random() < 0.1 else val, rng.choice([1.0, 2.0, "nan", 0.5])])
                val *= 2
            tracks.append(tr)
        # the extent is the whole box
        tracks[0].insert(rng.choice([0, len(tracks[0])]), [box[0], box[2], val, 1.0])
        tracks[-1].insert(rng.choice([0, len(tracks[-1])]), [box[1], box[3], 2 * val, "nan"])
        aggs = self.rand_aggs(rng)
        for a in (["v", "co_sum"], ["uid", "co_count"]):
            if a not in aggs:
                aggs.insert(rng.randrange(0, len(aggs) + 1), a)
        return self.sum_layouts(rng, {"kind": "sum-micro-" + mode, "mode": mode, "tracks": tracks, "res": res, "margin": mg, "aggs": aggs, "runs": 1})

    def values(self, rng, n):
        style = rng.choice(["plain", "nan", "allnan", "ties"])
        vs = []
        for _ in range(n):
            if style == "allnan" or (style == "nan" and rng.random() < 0.35):
                vs.append("nan")
            elif style == "ties":
                vs.append(float(rng.randrange(0, 3)))
            else:
                vs.append(rng.choice([0.0, 1.0, -2.0, 0.5, 7.25, float(rng.randrange(-20, 20)), rng.randrange(-40, 40) / 4]))
        return vs

    def lattice(self, rng, mode):
        W, H = rng.randrange(1, 5), rng.randrange(1, 5)
        ox, oy = rng.choice([0, 0, -3, 10, 0.5]), rng.choice([0, 0, 5, -7, -0.5])
        ntr = rng.randrange(1, 4)
        tracks = []
        for _ in range(ntr):
            n = rng.randrange(1, 9)
            tr = []
            vs, ws = self.values(rng, n), self.values(rng, n)
            for k in range(n):
                x = rng.choice([0, W, rng.randrange(0, 2 * W + 1) / 2, rng.randrange(0, W + 1)])
                y = rng.choice([0, H, rng.randrange(0, 2 * H + 1) / 2, rng.randrange(0, H + 1)])
                tr.append([ox + x, oy + y, vs[k], ws[k]])
            tracks.append(tr)
        # the two opposite corners are always present (the extent is the whole box) ...
        tracks[0][0][0], tracks[0][0][1] = ox, oy
        tracks[-1].append([ox + W, oy + H, rng.choice([1.0, "nan", -3.5]), rng.choice([2.0, "nan"])])
        # ... except for 1 collection in 4: all observations on one north-south line, one east-west line, or at one position
        self.flatten(rng, tracks)
        margin = rng.choice([0, 0, 0.125, 0.25, 0.5]) if mode == "q" else rng.choice([0.05, 0.1, 0.1, 0.3])
        return self.sum_layouts(rng, {"kind": "sum-lattice-" + mode, "mode": mode, "tracks": tracks, "res": list(rng.choice(RES)), "margin": margin,
                                      "aggs": self.rand_aggs(rng), "runs": 2 if rng.random() < 0.2 else 1})

    def rand_aggs(self, rng):
        """the (feature, operator) pairs of ONE summarize call, in call order"""
        if rng.random() < 0.4:
            aggs = [["v", o] for o in OPS]
            rng.shuffle(aggs)
            aggs.insert(rng.randrange(0, len(aggs) + 1), ["uid", "co_count"])
            return aggs
        aggs = [["v", o] for o in rng.sample(OPS, rng.randrange(2, 5))]
        if rng.random() < 0.5 and ["v", "co_median"] not in aggs:
            aggs[rng.randrange(0, len(aggs))] = ["v", "co_median"]
        if rng.random() < 0.6:
            aggs += [["w", o] for o in rng.sample(OPS, rng.randrange(1, 4))]
        if rng.random() < 0.7:
            aggs += [["uid", o] for o in rng.sample(OPS, rng.randrange(1, 3))]
        rng.shuffle(aggs)
        return aggs

    def floaty(self, rng):
        ntr = rng.randrange(1, 4)
        sx, sy = rng.choice([1.0, 10.0, 1000.0]), rng.choice([1.0, 10.0, 1000.0])
        ox, oy = rng.uniform(-1e4, 1e4), rng.uniform(-1e4, 1e4)
        tracks = []
        for _ in range(ntr):
            n = rng.randrange(1, 7)
            vs = self.values(rng, n)
            ws = self.values(rng, n)
            tracks.append([[ox + rng.uniform(0, sx), oy + rng.uniform(0, sy), vs[k] if vs[k] == "nan" else vs[k] + rng.choice([0, rng.uniform(-1, 1)]), ws[k]] for k in range(n)])
        tracks[0].append([ox + sx * 1.01, oy + sy * 1.01, 1.0, "nan"])
        tracks[-1].append([ox - sx * 0.01, oy - sy * 0.01, 2.0, 3.0])
        if rng.random() < 2 / 3:
            self.flatten(rng, tracks)
        res = [sx / rng.choice([1, 2, 3, 4.5, 7]), sy / rng.choice([1, 2, 3, 4.5, 7])]
        return self.sum_layouts(rng, {"kind": "sum-float", "mode": "f", "tracks": tracks, "res": res, "margin": rng.choice([0, 0.05, 0.1, 0.3]),
                                      "aggs": self.rand_aggs(rng), "runs": 2 if rng.random() < 0.2 else 1})

    def cellcase(self, rng):
        W, H = rng.randrange(1, 6), rng.randrange(1, 6)
        ox, oy = rng.choice([0, -3, 10.5]), rng.choice([0, 5, -7.5])
        pts = [[ox + rng.randrange(-2, 2 * W + 3) / 2, oy + rng.randrange(-2, 2 * H + 3) / 2] for _ in range(12)]
        return {"kind": "cell", "mode": "q", "box": [ox, ox + W, oy, oy + H], "res": list(rng.choice(RES)),
                "margin": rng.choice([0, 0, 0.25, 0.5]), "pts": pts}

    def flatten(self, rng, tracks):
        """with probability 1/4 move all the observations on one vertical / horizontal line or to one position
        (an extent without width / height); sometimes a single observation"""
        shape = rng.choice(["box"] * 9 + ["vline", "hline", "point"])
        if shape == "box":
            return
        x0, y0 = tracks[-1][-1][0], tracks[-1][-1][1]
        if shape == "point" and rng.random() < 0.5:
            del tracks[1:]
            del tracks[0][1:]
        for tr in tracks:
            for o in tr:
                if shape in ("vline", "point"):
                    o[0] = x0
                if shape in ("hline", "point"):
                    o[1] = y0

    # ---- feature layouts. The rank of an analytical feature in Obs.features is a PER-TRACK notion (Track.__analyticalFeaturesDico):
    # tracks of one collection may hold the same features at different ranks (created in another order, an extra feature created
    # earlier, a feature removed — the later ones move down —, a feature removed and created again — it moves to the end).
    # A layout is the script that builds the features of ONE track: "name" = createAnalyticalFeature(name), "-name" =
    # removeAnalyticalFeature(name); None = the features in the order of the case. Names that are not features of the case
    # ("aux", "tmp") get filler values no feature of the case takes.
    def rand_layout(self, rng, names):
        names = list(names)
        if not names:
            return None
        steps = list(names)
        if rng.random() < 0.6:
            steps.reverse() if len(steps) == 2 else rng.shuffle(steps)
        r = rng.random()
        if r < 0.3:                                                  # an extra feature created before some of them, and kept
            steps.insert(rng.randrange(0, len(steps)), "aux")
        elif r < 0.55:                                               # a temporary feature, removed after at least one more was created
            i = rng.randrange(0, len(steps))
            steps.insert(i, "tmp")
            steps.insert(rng.randrange(i + 2, len(steps) + 1), "-tmp")
        elif r < 0.75:                                               # a feature removed and created again: it is now the last one
            n = rng.choice(names)
            steps += ["-" + n, n]
            if rng.random() < 0.3:
                steps.append("aux")
        return steps

    def rand_layouts(self, rng, names_per_track):
        """one layout per track of a collection: all default (half of the collections) or drawn independently per track"""
        if rng.random() < 0.5:
            return [None for _ in names_per_track]
        return [self.rand_layout(rng, ns) if rng.random() < 0.7 else None for ns in names_per_track]

    def layout_ranks(self, names, layout):
        """name -> rank in Obs.features after the script (what Track.__analyticalFeaturesDico must hold)"""
        present = []
        for s in (layout if layout is not None else list(names)):
            if s.startswith("-"):
                if s[1:] in present:
                    present.remove(s[1:])
            elif s not in present:
                present.append(s)
        for n in names:
            if n not in present:
                present.append(n)
        return {n: i for i, n in enumerate(present)}

    def mixed_layouts(self, tracks):
        """tracks: [(names, layout)]: some feature has a different rank on two tracks of the collection"""
        seen = {}
        for names, layout in tracks:
            if not names:
                continue
            for n, i in self.layout_ranks(names, layout).items():
                if seen.setdefault(n, i) != i:
                    return True
        return False

    def filler(self, j, k):
        return "nan" if (j + k) % 4 == 0 else -(1000.0 + 16 * j + k)

    def script(self, f, layout, n):
        """the calls that build the analytical features of one track of n observations, run on the real Track by make_feats and on
        the model's feature table by the driver: ["create", name, vals] createAnalyticalFeature(name, vals) | ["remove", name]
        removeAnalyticalFeature(name) | ["write", name, vals] setObsAnalyticalFeature(name, k, vals[k]) for every k.
        The layout's steps first (filler values; steps that do not apply — a name already there, a remove of an absent name — are
        skipped), then every feature of `f` gets its values: created now if the track lacks it, written otherwise."""
        steps, present = [], []
        if not n:
            return steps
        for j, s in enumerate(layout or []):
            if s.startswith("-"):
                if s[1:] in present:
                    steps.append(["remove", s[1:]])
                    present.remove(s[1:])
            elif s and s not in present and s not in BUILTIN_FEATS + ("z", "t", "timestamp"):
                steps.append(["create", s, [self.filler(j, k) for k in range(n)]])
                present.append(s)
        for name, vals in f.items():
            steps.append(["write" if name in present else "create", name, list(vals)])
            if name not in present:
                present.append(name)
        return steps

    def full_layout(self, f, layout):
        """the layout with the creations make_feats adds for the features of `f` it does not mention, made explicit"""
        steps = list(layout or [])
        present = []
        for s in steps:
            if s.startswith("-"):
                if s[1:] in present:
                    present.remove(s[1:])
            elif s not in present:
                present.append(s)
        return steps + [n for n in f if n not in present]

    def make_feats(self, t, f, layout):
        """the analytical features of one Track object: the calls of script()"""
        pv = lambda v: NAN if v == "nan" else v
        for st in self.script(f, layout, t.size()):
            if st[0] == "create":
                t.createAnalyticalFeature(st[1], [pv(v) for v in st[2]])
            elif st[0] == "remove":
                t.removeAnalyticalFeature(st[1])
            else:
                for k, v in enumerate(st[2]):
                    t.setObsAnalyticalFeature(st[1], k, pv(v))

    def sum_layouts(self, rng, case):
        """draw the per-track layouts of a summarize case (key "layouts", absent = all default)"""
        names = [n for n in ("v", "w") if n in self.feats(case)]
        if len(names) == 1 and rng.random() < 0.5:                   # a feature no aggregate asks for, next to the one summarised
            names.append("w" if names[0] == "v" else "v")
        ls = self.rand_layouts(rng, [names for _ in case["tracks"]])
        if any(l is not None for l in ls):
            case["layouts"] = ls
        return case

    def all_obs(self, case):
        return [o for tr in case["tracks"] for o in tr]

    def aggs(self, case):
        return case.get("aggs") or DEFAULT_AGGS

    def feats(self, case):
        out = []
        for f, _ in self.aggs(case):
            if f not in out:
                out.append(f)
        return out

    def fvals(self, case, feat):
        """the values of feature `feat` per observation, in scatter order"""
        out = []
        for i, tr in enumerate(case["tracks"]):
            for o in tr:
                out.append(float(i + 1) if feat == "uid" else o[2] if feat == "v" else o[3])
        return out

    def extent(self, case):
        """shape of the collection's extent: box / vline (no width) / hline (no height) / point"""
        obs = self.all_obs(case)
        nx, ny = len({o[0] for o in obs}), len({o[1] for o in obs})
        return "point" if nx == 1 and ny == 1 else "vline" if nx == 1 else "hline" if ny == 1 else "box"

    def ncells(self, case):
        """number of cells of the grid the constructor has to build (up to rounding), for the histogram only"""
        obs = self.all_obs(case)
        n = 1
        for k in (0, 1):
            w = (max(o[k] for o in obs) - min(o[k] for o in obs)) * (1 + 2 * case["margin"])
            n *= max(1, math.ceil(w / case["res"][k]))
        return n

    def describe(self, case):
        if case["kind"] == "op":
            return self.describe_op(case)
        if case["kind"] == "session":
            return self.describe_session(case)
        t = {"kind": case["kind"], "res": "square" if case["res"][0] == case["res"][1] else "non-square", "margin": case["margin"]}
        if case["kind"].startswith("sum"):
            t["tracks"] = len(case["tracks"])
            t["extent"] = self.extent(case)
            t["has_nan"] = any(o[2] == "nan" for o in self.all_obs(case))
            names = [n for n in ("v", "w") if n in self.feats(case)]
            ls = case.get("layouts")
            t["layouts"] = ("default" if not ls or all(l is None for l in ls) else
                            "ranks-differ" if self.mixed_layouts([(names, l) for l in ls]) else "scripted, same ranks")
            ag = self.aggs(case)
            t["naggs"] = len(ag)
            t["runs"] = case.get("runs", 1)
            vops = [o for f, o in ag if f == "v"]
            t["median_on_v"] = ("none" if "co_median" not in vops else "only" if len(vops) == 1 else
                                "first" if vops[0] == "co_median" else "last" if vops[-1] == "co_median" else "middle")
        return t

    def describe_op(self, case):
        return {"kind": "op", "n": len(case["vals"]), "has_nan": "nan" in case["vals"], "first": case["order"][0]}

    def nontrivial(self, case):
        if case["kind"] in ("cell", "op"):
            return True
        if case["kind"] == "session":
            return self.nontrivial_session(case)
        return len(self.all_obs(case)) >= 2 and self.ncells(case) >= 2

    # ---------------------------------------------------------------- implementation
    def impl(self, case):
        # Building the tracks of the case (Track / Obs / createAnalyticalFeature / removeAnalyticalFeature ...) is the harness's
        # plumbing, not the code under this property: a failure there is reported as such ("harness:build": no oracle verdict,
        # a correspondence disagreement), never as a violation of C19.
        try:
            return self.impl_checked(case)
        except BuildFailure as e:
            return {"err": "harness:build", "detail": str(e)[:300]}

    def building(self, f, *a):
        try:
            return f(*a)
        except BaseException as e:
            if isinstance(e, KeyboardInterrupt):
                raise
            raise BuildFailure("%s: %r" % (getattr(f, "__name__", f), e))

    def build_sum_tracks(self, case):
        tracks = []
        for uid, tr in enumerate(case["tracks"]):
            t = self.Track([], uid + 1)
            for k, o in enumerate(tr):
                t.addObs(self.Obs(self.ENU(o[0], o[1], 0), self.T.readUnixTime(1000 + k)))
            f = {name: [o[idx] for o in tr] for idx, name in ((2, "v"), (3, "w")) if name in self.feats(case)}
            ls = case.get("layouts")
            self.make_feats(t, f, ls[uid] if ls and uid < len(ls) else None)
            tracks.append(t)
        return self.TC(tracks), tracks

    def impl_checked(self, case):
        if case["kind"] == "session":
            return self.impl_session(case)
        if case["kind"] == "cell":
            b = case["box"]
            r = self.Raster(self.Bbox(self.ENU(b[0], b[2], 0), self.ENU(b[1], b[3], 0)), tuple(case["res"]), case["margin"])
            cells = []
            for p in case["pts"]:
                c = r.getCell(self.ENU(p[0], p[1], 0))
                cells.append(None if c is None else [int(c[0]), int(c[1])])
            return {"geo": [r.xmin, r.xmax, r.ymin, r.ymax, r.ncol, r.nrow], "cells": cells}
        if case["kind"] == "op":
            lst = [NAN if v == "nan" else v for v in case["vals"]]
            res = [self.opf[o](lst) for o in case["order"]]      # the SAME list object is handed to every operator
            return {"res": res, "after": list(lst)}
        col, tracks = self.building(self.build_sum_tracks, case)
        ag = self.aggs(case)
        out = None
        for run in range(case.get("runs", 1)):
            # ONE call with all (feature, operator) pairs, in the case's order
            r = self.summarize(col, [f for f, _ in ag], [self.opf[o] for _, o in ag], tuple(case["res"]), case["margin"])
            cells = []
            for t in tracks:
                for k in range(t.size()):
                    c = r.getCell(t.getObs(k).position)
                    cells.append(None if c is None else [int(c[0]), int(c[1])])
            grids = {f + "#" + o: [list(row) for row in r.getAFMap(f + "#" + o).grid] for f, o in ag}
            if out is None:
                out = {"geo": [r.xmin, r.xmax, r.ymin, r.ymax, r.ncol, r.nrow], "cells": cells, "grids": grids}
            else:
                out["again"] = {"geo": [r.xmin, r.xmax, r.ymin, r.ymax, r.ncol, r.nrow], "cells": cells, "grids": grids}
        return out

    # ---------------------------------------------------------------- model
    def enc(self, case):
        if case["mode"] == "q":
            return lambda v: "None" if v is None or v == "None" else "nan" if v == "nan" else ratstr(v)
        return lambda v: "None" if v is None or v == "None" else "nan" if v == "nan" else fbits(v)

    def dec(self, case):
        if case["mode"] == "q":
            return lambda w: None if w == "None" else NAN if w == "nan" else float(parse_rat(w))
        return lambda w: None if w == "None" else bitsf(w)

    def requests(self, case):
        e = self.enc(case)
        m = case["mode"]
        if case["kind"] == "session":
            return self.requests_session(case)
        if case["kind"] == "cell":
            b, res, mg = case["box"], case["res"], case["margin"]
            head = "C19.cell %s %s %s %s %s %s %s %s" % (m, e(b[0]), e(b[1]), e(b[2]), e(b[3]), e(res[0]), e(res[1]), e(mg))
            return ["%s %s %s" % (head, e(p[0]), e(p[1])) for p in case["pts"]]
        if case["kind"] == "op":
            return ["C19.agg %s %s %s" % (m, tok_list(e(v) for v in case["vals"]), "".join(OPCH[o] for o in case["order"]))]
        # summarize() with all its (feature, operator) pairs, in call order, is inside the model (Model/RasterSession.lean)
        return self.requests_session(self.sum_as_session(case))

    def sum_as_session(self, case):
        feats = self.feats(case)
        tracks = [{"uid": i + 1, "pts": [[o[0], o[1]] for o in tr],
                   "f": {n: [o[idx] for o in tr] for idx, n in ((2, "v"), (3, "w")) if n in feats}}
                  for i, tr in enumerate(case["tracks"])]
        for t, l in zip(tracks, case.get("layouts") or []):
            if l is not None:
                t["layout"] = l
        ag = self.aggs(case)
        op = ["summarize", 0, [f for f, _ in ag], [o for _, o in ag], case["res"], case["margin"], "list"]
        return {"kind": "session", "mode": case["mode"], "colls": [tracks], "ops": [op] * case.get("runs", 1)}

    def parse_cell(self, w):
        if w == "none":
            return None
        a, b = w.split(":")
        return [int(a), int(b)]

    def decode(self, case, replies):
        d = self.dec(case)
        if any(r == "bad-request" for r in replies):
            raise ValueError("bad-request")
        if case["kind"] == "session":
            return self.decode_session(case, replies)
        if case["kind"] == "cell":
            geo, cells = None, []
            for r in replies:
                w = r.split(" ")
                g = [d(w[0]), d(w[1]), d(w[2]), d(w[3]), int(w[4]), int(w[5])]
                if geo is not None and g != geo:
                    raise ValueError("geometry differs between requests")
                geo = g
                cells.append(self.parse_cell(w[6]))
            return {"geo": geo, "cells": cells}
        if case["kind"] == "op":
            return {"res": [d(w) for w in untok(replies[0])], "after": [NAN if v == "nan" else v for v in case["vals"]]}
        outs = []
        for st in self.decode_session(self.sum_as_session(case), replies)["steps"]:
            if st["out"] != "ok" or st["snap"] is None:
                return {"err": "raised"}
            outs.append({"geo": st["snap"]["geo"], "cells": st["cells"], "grids": {n: g for n, g in st["snap"]["bands"]}})
        out = outs[0]
        if len(outs) > 1:
            out["again"] = outs[1]
        return out

    def compare(self, case, impl_out, model_out):
        if impl_out.get("err") == "harness:build":
            return "the harness could not build the case: %s" % impl_out.get("detail")
        if "err" in impl_out or "err" in model_out:
            if "err" in impl_out and "err" in model_out:
                return None
            return "impl=%s model=%s" % (str(impl_out)[:300], str(model_out)[:300])
        if case["kind"] == "session" and "steps" in impl_out and "steps" in model_out and len(impl_out["steps"]) == len(model_out["steps"]):
            # the ORDER of the bands of a raster is not part of the property (the statement speaks of each cell's aggregates): a raster
            # holding the same bands in another order than the model's (insertion order) agrees with it
            impl_out, model_out = copy.deepcopy(impl_out), copy.deepcopy(model_out)
            for a, b in zip(impl_out["steps"], model_out["steps"]):
                sa, sb = a.get("snap"), b.get("snap")
                if sa and sb and [n for n, _ in sa["bands"]] != [n for n, _ in sb["bands"]] and \
                        sorted(n for n, _ in sa["bands"]) == sorted(n for n, _ in sb["bands"]):
                    sa["bands"].sort(key=lambda nb: nb[0])
                    sb["bands"].sort(key=lambda nb: nb[0])
        return Prop.compare(self, case, impl_out, model_out)

    # ---------------------------------------------------------------- oracle (transfer)
    def allowance(self, case, geo, x, y):
        """how far outside the exact footprint a float observation may be: nothing on the exact streams; on the float
        streams 2^-40 of the largest magnitude involved (the quotient (x - xmin) / rx, rounded twice, and the subtraction
        from nrow - 1 are each off by at most 2^-53 relative: any formula of that kind stays 1000 times inside this)"""
        if case["mode"] == "q":
            return 0, 0
        xmin, xmax, ymin, ymax = (fr(v) for v in geo[:4])
        u = Fraction(1, 2 ** 40)
        return (u * max(fr(case["res"][0]), abs(fr(x)), abs(xmin), abs(xmax)),
                u * max(fr(case["res"][1]), abs(fr(y)), abs(ymin), abs(ymax)))

    def admissible(self, case, geo, x, y):
        """the columns and the lines (from the top) of the grid whose footprint contains x, resp. y — located with exact
        rational arithmetic on the float values, independently of the implementation: column c = [xmin + c rx,
        xmin + (c+1) rx), line l = [ymin + (nrow-1-l) ry, ymin + (nrow-l) ry), closed on the outer right / top border.
        Exact streams: at most one of each. Float streams: a coordinate within the rounding allowance of an edge is
        admitted on both sides."""
        xmin, xmax, ymin, ymax, ncol, nrow = geo
        rx, ry = fr(case["res"][0]), fr(case["res"][1])
        ex, ey = self.allowance(case, geo, x, y)
        X, Y = fr(x), fr(y)
        c0 = math.floor((X - fr(xmin)) / rx)
        u0 = math.floor((Y - fr(ymin)) / ry)
        cols, lines = [], []
        for c in (c0 - 1, c0, c0 + 1):
            if 0 <= c < ncol:
                a, b = fr(xmin) + c * rx, fr(xmin) + (c + 1) * rx
                if a - ex <= X and (X < b + ex or (c == ncol - 1 and X <= b + ex)):
                    cols.append(c)
        for up in (u0 + 1, u0, u0 - 1):
            l = nrow - 1 - up
            if 0 <= l < nrow:
                a, b = fr(ymin) + up * ry, fr(ymin) + (up + 1) * ry
                if a - ey <= Y and (Y < b + ey or (l == 0 and Y <= b + ey)):
                    lines.append(l)
        return cols, lines

    def footprint(self, case, geo, x, y, cell):
        """None when (col, line) is a cell of the grid whose footprint contains (x, y)"""
        xmin, xmax, ymin, ymax, ncol, nrow = geo
        rx, ry = fr(case["res"][0]), fr(case["res"][1])
        if cell is None:
            return "no cell"
        c, l = cell
        if not (0 <= c < ncol and 0 <= l < nrow):
            return "cell (col %d, line %d) is outside the %d x %d grid" % (c, l, ncol, nrow)
        cols, lines = self.admissible(case, geo, x, y)
        if c not in cols:
            return "x = %r is not in column %d = [%r, %r) (grid origin %r, cell width %r; the columns containing it: %s)" % (
                x, c, float(fr(xmin) + c * rx), float(fr(xmin) + (c + 1) * rx), xmin, case["res"][0], cols)
        if l not in lines:
            return "y = %r is not in line %d (from the top) = [%r, %r) (grid origin %r, cell height %r, %d lines; the lines containing it: %s)" % (
                y, l, float(fr(ymin) + (nrow - 1 - l) * ry), float(fr(ymin) + (nrow - l) * ry), ymin, case["res"][1], nrow, lines)
        return None

    def locate(self, case, geo, obs, cells):
        """the cell of every observation for the per-cell clauses: the one found by exact arithmetic; the implementation's
        own (validated) answer only decides between the two sides of an edge that lies within the rounding allowance"""
        out = []
        for p, c in zip(obs, cells):
            cols, lines = self.admissible(case, geo, p[0], p[1])
            if len(cols) == 1 and len(lines) == 1:
                out.append([cols[0], lines[0]])
            else:
                out.append([c[0] if len(cols) != 1 else cols[0], c[1] if len(lines) != 1 else lines[0]])
        return out

    def agg(self, op, vals, nodata=NO_DATA):
        """the aggregate over the non-NaN values, computed with the standard library"""
        v = [float(x) for x in vals if x != "nan" and not isnan(x)]
        if op == "co_count":
            return len(v)
        if op == "co_sum":
            return math.fsum(v) if v else 0
        if not v:
            return nodata
        if op == "co_min":
            return min(v)
        if op == "co_max":
            return max(v)
        if op == "co_avg":
            return math.fsum(v) / len(v)
        if op == "co_median":
            return statistics.median(v)

    def spec(self, case, out):
        if out.get("err") == "harness:build":
            return None                                             # no verdict: the failure is in the construction of the inputs
        if "err" in out:
            return "raised %s (%s)" % (out["err"], out.get("detail"))
        if case["kind"] == "session":
            return self.spec_session(case, out)
        if case["kind"] == "op":
            want_list = [NAN if v == "nan" else v for v in case["vals"]]
            for k, (o, got) in enumerate(zip(case["order"], out["res"])):
                want = self.agg(o, case["vals"])
                if want == NO_DATA and o not in ("co_count", "co_sum") and not any(v != "nan" for v in case["vals"]):
                    if not isnan(got):
                        return "call %d: %s(%s) = %r, NaN expected (no non-NaN value)" % (k, o, case["vals"], got)
                elif isnan(got) or not close(got, want, 1e-9):
                    return ("call %d of %s on the same list: %s(%s) = %r, expected %r"
                            % (k, case["order"], o, case["vals"], got, want))
            if not close(out["after"], want_list, 0.0, 0.0):
                return "the operators %s changed their argument: %s -> %s" % (case["order"], case["vals"], out["after"])
            return None
        m = self.spec_sum(case, out, "")
        if m is None and "again" in out:
            m = self.spec_sum(case, out["again"], "second summarize of the same collection: ")
        return m

    def spec_sum(self, case, out, prefix):
        m = self.spec_sum1(case, out)
        return None if m is None else prefix + m

    def spec_sum1(self, case, out):
        geo = out["geo"]
        xmin, xmax, ymin, ymax, ncol, nrow = geo
        if case["kind"] == "cell":
            for p, c in zip(case["pts"], out["cells"]):
                inside = fr(xmin) <= fr(p[0]) <= fr(xmax) and fr(ymin) <= fr(p[1]) <= fr(ymax)
                if not inside:
                    if c is not None:
                        return "point %s outside the grid extent is assigned the cell %s" % (p, c)
                    continue
                m = self.footprint(case, geo, p[0], p[1], c)
                if m:
                    return "getCell(%s) = %s: %s" % (p, c, m)
            return None
        obs = self.all_obs(case)
        if len(out["cells"]) != len(obs):
            return "cells for %d of %d observations" % (len(out["cells"]), len(obs))
        # the grid origin: bounding box of the observations enlarged by the relative margin
        xs, ys = [o[0] for o in obs], [o[1] for o in obs]
        mg = case["margin"]
        wx, wy = max(xs) - min(xs), max(ys) - min(ys)
        for name, got, want, w in (("xmin", xmin, min(xs) - mg * wx, wx), ("ymin", ymin, min(ys) - mg * wy, wy)):
            if abs(got - want) > 1e-9 * max(1.0, abs(want), w):
                return "grid origin %s = %r, expected %r" % (name, got, want)
        for o, c in zip(obs, out["cells"]):
            m = self.footprint(case, geo, o[0], o[1], c)
            if m:
                return "observation (%r, %r) assigned to %s: %s" % (o[0], o[1], c, m)
        where = self.locate(case, geo, obs, out["cells"])
        grids = out["grids"]
        ag = self.aggs(case)
        if sorted(grids) != sorted(f + "#" + o for f, o in ag):
            return "maps %s for the requested aggregates %s" % (sorted(grids), ag)
        for name, g in grids.items():
            if len(g) != nrow or any(len(row) != ncol for row in g):
                return "grid %s is not %d x %d" % (name, nrow, ncol)
        # EVERY produced grid is checked against the values located in each cell, whatever else was computed in the same call
        for f in self.feats(case):
            members = {}
            for v, c in zip(self.fvals(case, f), where):
                members.setdefault((c[1], c[0]), []).append(v)
            for ff, o in ag:
                if ff != f:
                    continue
                g = grids[f + "#" + o]
                if o == "co_count":
                    nn = sum(1 for v in self.fvals(case, f) if v != "nan")
                    tot = sum(sum(row) for row in g)
                    if tot != nn:
                        return ("the counts of %s#co_count sum to %s for %d %s (aggregates of this call, in order: %s)"
                                % (f, tot, nn, "observations" if f == "uid" else "non-NaN values", ag))
                for l in range(nrow):
                    for c in range(ncol):
                        vals = members.get((l, c), [])
                        want = self.agg(o, vals)
                        got = g[l][c]
                        if isnan(got) or not close(got, want, 1e-9):
                            return ("%s#%s[line %d][col %d] = %r, the values located there %s give %r (aggregates of this call, in order: %s)"
                                    % (f, o, l, c, got, vals, want, ag))
        return None

    # ---------------------------------------------------------------- shrinking / search
    def shrink(self, case):
        if case["kind"] == "session":
            yield from self.shrink_session(case)
            return
        if case["kind"] == "cell":
            if len(case["pts"]) > 1:
                for i in range(len(case["pts"])):
                    yield dict(case, pts=[case["pts"][i]])
            return
        if case["kind"] == "op":
            if len(case["order"]) > 1:
                for i in range(len(case["order"])):
                    yield dict(case, order=case["order"][:i] + case["order"][i + 1:])
            for i in range(len(case["vals"])):
                yield dict(case, vals=case["vals"][:i] + case["vals"][i + 1:])
            return
        if case.get("runs", 1) > 1:
            yield dict(case, runs=1)
        ag = self.aggs(case)
        if len(ag) > 1:
            for i in range(len(ag)):
                yield dict(case, aggs=ag[:i] + ag[i + 1:])
        tr = case["tracks"]
        ls = case.get("layouts")
        if ls:
            yield {k: v for k, v in case.items() if k != "layouts"}
            ls = (list(ls) + [None] * len(tr))[:len(tr)]
        if len(tr) > 1:
            for i in range(len(tr)):
                c = dict(case, tracks=tr[:i] + tr[i + 1:])
                if ls:
                    c["layouts"] = ls[:i] + ls[i + 1:]
                yield c
        if ls:
            for i, l in enumerate(ls):
                if l is not None:
                    yield dict(case, layouts=ls[:i] + [None] + ls[i + 1:])
                    for j in range(len(l)):
                        yield dict(case, layouts=ls[:i] + [l[:j] + l[j + 1:]] + ls[i + 1:])
        for i in range(len(tr)):
            if len(tr[i]) > 1:
                for k in range(len(tr[i])):
                    yield dict(case, tracks=tr[:i] + [tr[i][:k] + tr[i][k + 1:]] + tr[i + 1:])
        if case["margin"] != 0:
            yield dict(case, margin=0)

    def mutate(self, case, rng):
        # the same case with other feature layouts on its tracks
        if case["kind"].startswith("sum"):
            for _ in range(4):
                c = {k: v for k, v in copy.deepcopy(case).items() if k != "layouts"}
                c["layouts"] = [self.rand_layout(rng, ["v", "w"]) if rng.random() < 0.7 else None for _ in c["tracks"]]
                yield c
        elif case["kind"] == "session":
            for _ in range(4):
                c = copy.deepcopy(case)
                for col in c["colls"]:
                    for t in col:
                        t.pop("layout", None)
                        if t["pts"] and t["f"] and rng.random() < 0.7:
                            t["layout"] = self.rand_layout(rng, list(t["f"]))
                yield c
            yield from self.remark_variants(case, rng)
        for _ in range(10):
            yield self.lattice(rng, "q")
        for _ in range(10):
            yield self.session(rng, "q")
        for _ in range(6):
            yield self.session(rng, rng.choice(["q", "q", "f"]), tpl="remark")
        for _ in range(6):
            yield self.nearint(rng)
            yield self.micro(rng, rng.choice(["q", "f"]))

    def search_cases(self, rng):
        """failing-input search: the call sequences that read the bands again after setNoDataValue first, then the thorough generator"""
        out = list(self.remark_enum())
        for _ in range(400):
            out.append(self.session(rng, rng.choice(["q", "q", "f"]), tpl="remark"))
        for _ in range(200):
            out.append(self.session(rng, "q", tpl="nodata"))
        return out + list(self.cases(rng, "thorough"))

    # ================================================================ sessions: sequences of calls on ONE raster object
    # case: {"kind": "session", "mode": q|f, "colls": [[{"uid", "pts": [[x, y]..], "f": {name: [values]}}..]..], "ops": [..]}
    # ops : ["new", [x0, x1, y0, y1] | {"of": k}, [rx, ry], margin, novalue | None]      Raster(Bbox | collection k's bbox, ...)
    #       ["summarize", k, [features], [operator names], [rx, ry], margin, form]         the result becomes the current raster
    #       ["band", name] | ["band", name, grid]                                           addAFMap
    #       ["add", k]   ["compute"]   ["nodata", v]                                        addCollectionToRaster / computeAggregates / setNoDataValue
    #       ["setfeat", k, track, name, [values]]                                           the feature is (re)written on the Track object (created, as the last one, when the track lacks it)
    #       ["delfeat", k, track, name]                                                     Track.removeAnalyticalFeature: the later features of that track move down one rank
    # a track may carry "layout": the script that creates its features (see rand_layout); absent = the features of "f" in order
    def skey(self, case):
        return json.dumps(case, sort_keys=True)

    def s_featvals(self, tr, af):
        """values of feature `af` along a track of the case, None when the track does not have it"""
        n = len(tr["pts"])
        if af == "uid":
            return [float(tr["uid"])] * n
        if af == "x":
            return [float(p[0]) for p in tr["pts"]]
        if af == "y":
            return [float(p[1]) for p in tr["pts"]]
        if af == "idx":
            return [float(k) for k in range(n)]
        return tr["f"].get(af)

    def build_coll(self, tracks):
        out = []
        for tr in tracks:
            t = self.Track([], tr["uid"])
            for k, p in enumerate(tr["pts"]):
                t.addObs(self.Obs(self.ENU(p[0], p[1], 0), self.T.readUnixTime(1000 + k)))
            self.make_feats(t, tr["f"], tr.get("layout"))
            out.append(t)
        return self.TC(out), out

    def num(self, v):
        return v if v is None or (isinstance(v, (int, float)) and not isinstance(v, bool)) else repr(v)

    def pyval(self, v):
        """a no-data value of the case: the string "None" stands for Python's None"""
        return None if v == "None" else v

    def snap(self, r):
        if r is None:
            return None
        bands = []
        for idx, name in enumerate(r.getNamesOfAFMap()):
            m = r.getAFMap(name)
            g = m.grid
            if all(isinstance(c, list) and not c for row in g for c in row):
                grid = "E"                                         # as created by addAFMap: every cell an empty list
            else:
                grid = [[self.num(c) for c in row] for row in g]
            bands.append([name if (r.getAFMap(idx) is m and m.getName() == name) else name + " (getAFMap by index / getName differ)", grid])
        vals = None
        if hasattr(r, "collectionValuesGrid"):
            # an INTERNAL structure (the property's observation points are the bands and getCell): read as documented
            # (feature -> rows -> cells -> values); when it cannot be read that way the harness says so and the oracle gives no
            # verdict on it (the model comparison still reports the difference)
            try:
                vals = {af: [[[self.num(v) for v in cell] for cell in row] for row in grid] for af, grid in r.collectionValuesGrid.items()}
            except Exception as e:
                vals = "unreadable (%s)" % type(e).__name__
        return {"geo": [r.xmin, r.xmax, r.ymin, r.ymax, r.ncol, r.nrow], "nodata": r.getNoDataValue(), "bands": bands, "values": vals}

    def obs_cells(self, r, tracks):
        cells = []
        for t in tracks:
            for k in range(t.size()):
                c = r.getCell(t.getObs(k).position)
                cells.append(None if c is None else [int(c[0]), int(c[1])])
        return cells

    def opfun(self, name):
        if name in self.opf:
            return self.opf[name]
        def f(tarray):
            return NAN
        f.__name__ = name
        return f

    def call_summarize(self, col, afs, ops, res, mg, form):
        fs = [self.opfun(o) for o in ops]
        a = list(afs)
        if form == "callable":                                      # the feature designated by a function carrying its name
            def mk(n):
                def g(track, i):
                    return NAN
                g.__name__ = n
                return g
            a = [n if n == "uid" else mk(n) for n in a]
        if form == "scalar" and len(a) == 1 and len(fs) == 1:        # listify
            return self.summarize(col, a[0], fs[0], tuple(res), mg)
        return self.summarize(col, a, fs, tuple(res), mg)

    def impl_session(self, case):
        built = [self.building(self.build_coll, c) for c in case["colls"]]
        have = [[set(t["f"]) for t in c] for c in case["colls"]]     # the harness's own record of which features a track holds
        r, steps, names_at = None, [], {}
        boxes = {}                                                  # one Bbox OBJECT per box value: rasters of a session share it
        for i, op in enumerate(case["ops"]):
            kind, out, cells = op[0], "ok", None
            if kind == "setfeat":
                _, k, ti, name, vals = op
                t = built[k][1][ti]
                if name not in have[k][ti]:
                    self.building(t.createAnalyticalFeature, name)
                    have[k][ti].add(name)
                for j, v in enumerate(vals):
                    self.building(t.setObsAnalyticalFeature, name, j, NAN if v == "nan" else v)
                steps.append({"out": "py", "snap": None, "cells": None})
                continue
            if kind == "delfeat":
                _, k, ti, name = op
                if name in have[k][ti]:
                    self.building(built[k][1][ti].removeAnalyticalFeature, name)
                    have[k][ti].discard(name)
                steps.append({"out": "py", "snap": None, "cells": None})
                continue
            try:
                if kind == "new":
                    _, box, res, mg, nd = op
                    if isinstance(box, dict):
                        bb = built[box["of"]][0].bbox()
                    else:
                        bb = boxes.setdefault(tuple(box), self.Bbox(self.ENU(box[0], box[2], 0), self.ENU(box[1], box[3], 0)))
                    r = self.Raster(bb, tuple(res), mg) if nd is None else self.Raster(bb, tuple(res), mg, self.pyval(nd))
                elif kind == "summarize":
                    _, k, afs, ops, res, mg, form = op
                    r = None
                    r = self.call_summarize(built[k][0], afs, ops, res, mg, form)
                    if not isinstance(r, self.Raster):
                        out, r = "zero" if r == 0 else "returned %r" % (r,), None
                    else:
                        cells = self.obs_cells(r, built[k][1])
                elif r is None:
                    out = "noraster"                                # the last summarize gave no raster: nothing to call
                elif kind == "band":
                    name = op[1]
                    p = name.split("#")
                    if len(p) == 2 and p[1] in self.opf and p[0]:
                        name = self.AFMap.getMeasureName(p[0], self.opf[p[1]])
                    if len(op) == 2:
                        r.addAFMap(name)
                    else:
                        r.addAFMap(name, [list(row) for row in op[2]])
                elif kind == "add":
                    names_at[i] = list(r.getNamesOfAFMap())
                    cells = self.obs_cells(r, built[op[1]][1])
                    r.addCollectionToRaster(built[op[1]][0])
                elif kind == "compute":
                    r.computeAggregates()
                elif kind == "nodata":
                    r.setNoDataValue(self.pyval(op[1]))
                else:
                    raise ValueError("unknown op")
            except Exception as e:
                out = ERRNAMES.get(type(e).__name__, type(e).__name__)
            steps.append({"out": out, "snap": self.snap(r), "cells": cells})
        self._names[self.skey(case)] = names_at
        return {"steps": steps}

    # ---------------------------------------------------------------- model side
    def af_order(self, names):
        """iteration order of the Python set of features built as addCollectionToRaster builds it (same process, same order)"""
        s = set()
        for n in names:
            if "#" in n:
                s.add(n.split("#")[0])
            else:
                s.add(n)
        return list(s)

    def box_of(self, tracks):
        xs = [p[0] for t in tracks for p in t["pts"]]
        ys = [p[1] for t in tracks for p in t["pts"]]
        return [min(xs), max(xs), min(ys), max(ys)]

    def enc_tracks(self, e, tracks):
        out = []
        for t in tracks:
            head = "%s@%s@%s" % (e(t["uid"]), tok_list(e(p[0]) for p in t["pts"]), tok_list(e(p[1]) for p in t["pts"]))
            if t.get("layout") is not None and t["pts"]:
                # the features are built by the model of the Track's feature table (Model/RasterLayout.lean) from the same script
                sc = tok_list(("-" + st[1] if st[0] == "remove" else
                               "%s%s=%s" % ("+" if st[0] == "create" else "~", st[1], tok_list(e(v) for v in st[2]))
                               for st in self.script(t["f"], t["layout"], len(t["pts"]))), "&")
                out.append("%s@_@%s" % (head, sc))
                continue
            fs = tok_list(("%s=%s" % (n, tok_list(e(v) for v in vs)) for n, vs in t["f"].items()), "&")
            out.append("%s@%s" % (head, fs))
        return tok_list(out, "|")

    def apply_setfeat(self, colls, op):
        """setfeat / delfeat on the harness's description of the track: the values by name, and the layout script extended by the
        call made on the Track object (a removal; the creation of a feature the track lacks)"""
        t = colls[op[1]][op[2]]
        if op[0] == "delfeat":
            if op[3] in t["f"]:
                t["layout"] = self.full_layout(t["f"], t.get("layout")) + ["-" + op[3]]
                t["f"].pop(op[3])
            return
        _, k, ti, name, vals = op
        if name not in t["f"]:
            t["layout"] = self.full_layout(t["f"], t.get("layout")) + [name]
        t["f"][name] = list(vals)

    def requests_session(self, case):
        e = self.enc(case)
        colls = copy.deepcopy(case["colls"])
        cached = self._names.get(self.skey(case)) or {}
        names, toks = [], []
        for i, op in enumerate(case["ops"]):
            kind = op[0]
            if kind in ("setfeat", "delfeat"):
                self.apply_setfeat(colls, op)
            elif kind == "new":
                _, box, res, mg, nd = op
                b = self.box_of(colls[box["of"]]) if isinstance(box, dict) else box
                toks.append("N:" + ":".join(e(v) for v in [b[0], b[1], b[2], b[3], res[0], res[1], mg, NO_DATA if nd is None else nd]))
                names = []
            elif kind == "summarize":
                _, k, afs, ops, res, mg, form = op
                names = []
                for a, o in zip(afs, ops):
                    if a + "#" + o not in names:
                        names.append(a + "#" + o)
                toks.append("S:%s:%s:%s:%s:%s:%s:%s" % (tok_list(afs), tok_list(ops), e(res[0]), e(res[1]), e(mg),
                                                        tok_list(self.af_order(names)), self.enc_tracks(e, colls[k])))
            elif kind == "band":
                if op[1] and op[1] not in names:
                    names.append(op[1])
                t = "B:" + (op[1] or "_")
                if len(op) > 2:
                    t += ":" + (";".join(tok_list(e(v) for v in row) for row in op[2]) if op[2] else "~")
                toks.append(t)
            elif kind == "add":
                nm = cached.get(i, names)
                toks.append("A:%s:%s" % (tok_list(self.af_order(nm)), self.enc_tracks(e, colls[op[1]])))
            elif kind == "compute":
                toks.append("C")
            elif kind == "nodata":
                toks.append("D:" + e(op[1]))
        return ["C19.session %s %s" % (case["mode"], " ".join(toks))]

    def decode_session(self, case, replies):
        d = self.dec(case)
        it = iter(replies[0].split(" "))
        steps = []
        for op in case["ops"]:
            if op[0] in ("setfeat", "delfeat"):
                steps.append({"out": "py", "snap": None, "cells": None})
                continue
            w = next(it).split("!")
            if w[1] == "none":
                steps.append({"out": w[0], "snap": None, "cells": None})
                continue
            g = w[1].split(":")
            geo = [d(g[0]), d(g[1]), d(g[2]), d(g[3]), int(g[4]), int(g[5])]
            bands = []
            for b in untok(w[3], "&"):
                nm, gr = b.split("=")
                bands.append([nm, "E" if gr == "E" else [[d(v) for v in untok(row)] for row in untok(gr, ";")]])
            vals = None
            if w[4] != "none":
                vals = {}
                for x in untok(w[4], "&"):
                    af, rows = x.split("=")
                    vals[af] = [[[d(v) for v in untok(cell)] for cell in row.split("|")] for row in rows.split(";")]
            cells = [self.parse_cell(c) for c in untok(w[5])] if op[0] in ("add", "summarize") else None
            steps.append({"out": w[0], "snap": {"geo": geo, "nodata": d(w[2]), "bands": bands, "values": vals}, "cells": cells})
        return {"steps": steps}

    # ---------------------------------------------------------------- oracle
    def vkey(self, v):
        return (1, 0.0) if isnan(v) else (0, float(v))

    def members_of(self, tracks, cells, af):
        """cell (line, col) -> values of feature af of the observations located there (cells: validated col:line per observation)"""
        vals = [v for t in tracks for v in self.s_featvals(t, af)]
        m = {}
        for v, c in zip(vals, cells):
            m.setdefault((c[1], c[0]), []).append(NAN if v == "nan" else float(v))
        return m, vals

    def same_marker(self, got, want):
        if want is None or got is None:
            return got is None and want is None
        return isinstance(got, (int, float)) and not isinstance(got, bool) and not isnan(got) and close(got, want, 1e-9)

    def check_bands(self, geo, nodata, bands, tracks, cells, afs, also=(), only=None):
        """every band whose name is <feature>#<one of the six operators> against the values located in each cell.
        also: further no-data markers accepted in a cell WITHOUT a non-NaN value (min / max / mean / median only: count and sum hold 0
        there) — used when the bands are read again after setNoDataValue: the statement says "the no-data value", the marker of the
        call that wrote the band and the raster's current one both qualify; a cell WITH values never holds a marker.
        only: the band names to look at (default: all)"""
        ncol, nrow = geo[4], geo[5]
        for name, g in bands:
            p = name.split("#")
            if len(p) < 2 or p[1] not in OPS or p[0] not in afs or (only is not None and name not in only):
                continue
            f, o = p[0], p[1]
            if g == "E" or len(g) != nrow or any(len(row) != ncol for row in g):
                return "band %s is not a %d x %d grid of numbers" % (name, nrow, ncol)
            members, vals = self.members_of(tracks, cells, f)
            if o == "co_count":
                nn = sum(1 for v in vals if v != "nan" and not isnan(v))
                tot = sum(x for row in g for x in row if isinstance(x, (int, float)))
                if tot != nn:
                    return "the counts of %s sum to %s for %d non-NaN values of %d observations" % (name, tot, nn, len(vals))
            for l in range(nrow):
                for c in range(ncol):
                    here = members.get((l, c), [])
                    want = self.agg(o, here, nodata)
                    got = g[l][c]
                    if want is None:
                        bad = got is not None
                    else:
                        bad = not isinstance(got, (int, float)) or isnan(got) or not close(got, want, 1e-9)
                    if bad and also and o not in ("co_count", "co_sum") and not any(not isnan(v) for v in here):
                        bad = not any(self.same_marker(got, m) for m in also)
                    if bad:
                        return "%s[line %d][col %d] = %r, the values located there %s give %r (the raster's no-data value is %r%s)" % (
                            name, l, c, got, here, want, nodata, "".join(", or %r" % (m,) for m in also))
        return None

    def check_values(self, geo, values, tracks, cells, afs):
        """collectionValuesGrid: per feature, every cell holds exactly the values of the observations located in it"""
        ncol, nrow = geo[4], geo[5]
        if values is None or not isinstance(values, dict):
            return None                                             # no collectionValuesGrid (or not in the documented form) to look at: the bands are what counts
        if sorted(values) != sorted(afs):
            return "values are kept for the features %s, the bands need %s" % (sorted(values), sorted(afs))
        for f in afs:
            members, vals = self.members_of(tracks, cells, f)
            grid = values[f]
            if len(grid) != nrow or any(len(row) != ncol for row in grid):
                return "the values grid of %s is not %d x %d" % (f, nrow, ncol)
            if sum(len(cell) for row in grid for cell in row) != len(vals):
                return "%d values of %s are kept for %d observations" % (sum(len(cell) for row in grid for cell in row), f, len(vals))
            for l in range(nrow):
                for c in range(ncol):
                    got = grid[l][c]
                    if any(not isinstance(v, (int, float)) for v in got) or \
                            sorted(map(self.vkey, got)) != sorted(map(self.vkey, members.get((l, c), []))):
                        return "values of %s kept in [line %d][col %d] = %s, the observations located there have %s" % (f, l, c, got, members.get((l, c), []))
        return None

    def recheck_bands(self, geo, snap, done):
        """the bands written by the last computeAggregates / summarize, read again after a call that is not meant to touch them"""
        if done is None:
            return None
        m = self.check_bands(geo, done["nodata"], snap["bands"], done["tracks"], done["cells"], done["afs"],
                             also=(done["nodata"], snap["nodata"]), only=done["names"])
        if m:
            return "(bands written by the last computeAggregates, read again after this call) " + m
        return None

    def check_extent(self, box, mg, geo):
        wx, wy = box[1] - box[0], box[3] - box[2]
        for name, got, want, w in (("xmin", geo[0], box[0] - mg * wx, wx), ("xmax", geo[1], box[1] + mg * wx, wx),
                                   ("ymin", geo[2], box[2] - mg * wy, wy), ("ymax", geo[3], box[3] + mg * wy, wy)):
            if abs(got - want) > 1e-9 * max(1.0, abs(want), w):
                return "grid extent %s = %r, expected %r" % (name, got, want)
        return None

    def spec_session(self, case, out):
        colls = copy.deepcopy(case["colls"])
        steps = out["steps"]
        if len(steps) != len(case["ops"]):
            return "%d outcomes for %d calls" % (len(steps), len(case["ops"]))
        cur = None      # ghost of the current raster: {"res", "bands": names accepted so far}
        last = None     # what the last successful addCollectionToRaster scattered: {"k", "tracks" (as they were), "cells", "afs"}
        done = None     # what the last successful computeAggregates / summarize wrote, as the oracle validated it: {"names": the bands
                        # <feature>#<operator> it checked, "tracks", "cells", "afs", "nodata": the raster's marker at that call}; it stays
                        # valid while the raster is only given other bands / another no-data value (addAFMap, setNoDataValue): the bands
                        # are read AGAIN after each of those calls
        for i, (op, st) in enumerate(zip(case["ops"], steps)):
            kind, outc, snap = op[0], st["out"], st["snap"]
            where = "call %d %s: " % (i, json.dumps(op)[:120])
            if kind in ("setfeat", "delfeat"):
                self.apply_setfeat(colls, op)
                continue
            if kind == "new":
                _, box, res, mg, nd = op
                b = self.box_of(colls[box["of"]]) if isinstance(box, dict) else box
                if outc != "ok" or snap is None:
                    return where + "raised %s" % outc
                m = self.check_extent(b, mg, snap["geo"])
                if m:
                    return where + m
                # a new raster holds no band and no value of an observation (an empty collectionValuesGrid created by the
                # constructor would be an internal choice, not a failure)
                held = isinstance(snap["values"], dict) and any(cell for g in snap["values"].values() for row in g for cell in row)
                if snap["bands"] or held:
                    return where + "a new raster has bands %s / values %s" % (snap["bands"], snap["values"])
                cur, last, done = {"res": res, "bands": []}, None, None
                continue
            if kind == "summarize":
                _, k, afs, ops, res, mg, form = op
                tracks = colls[k]
                names = [a + "#" + o for a, o in zip(afs, ops)]
                legit = (len(afs) > 0 and len(afs) == len(ops) and len(tracks) > 0 and all(t["pts"] for t in tracks)
                         and len(set(names)) == len(names) and all(o in OPS for o in ops) and all(a for a in afs)
                         and all(self.s_featvals(t, a) is not None for t in tracks for a in afs))
                cur, last, done = None, None, None
                if not legit:
                    if outc == "ok" and snap is not None:
                        cur = {"res": res, "bands": [n for n, _ in snap["bands"]]}
                    continue
                if outc != "ok" or snap is None:
                    return where + "a well-formed summarize %s" % ("returned 0" if outc == "zero" else "raised " + outc)
                m = self.check_extent(self.box_of(tracks), mg, snap["geo"])
                if m:
                    return where + m
                pc = {"res": res, "mode": case["mode"]}
                obs = [p for t in tracks for p in t["pts"]]
                if st["cells"] is None or len(st["cells"]) != len(obs):
                    return where + "cells for %s of %d observations" % (None if st["cells"] is None else len(st["cells"]), len(obs))
                for p, c in zip(obs, st["cells"]):
                    m = self.footprint(pc, snap["geo"], p[0], p[1], c)
                    if m:
                        return where + "observation (%r, %r) assigned to %s: %s" % (p[0], p[1], c, m)
                if sorted(n for n, _ in snap["bands"]) != sorted(names):
                    return where + "bands %s for the requested aggregates %s" % ([n for n, _ in snap["bands"]], names)
                afs_set = sorted(set(afs))
                loc = self.locate(pc, snap["geo"], obs, st["cells"])
                m = self.check_values(snap["geo"], snap["values"], tracks, loc, afs_set) or \
                    self.check_bands(snap["geo"], snap["nodata"], snap["bands"], tracks, loc, afs_set)
                if m:
                    return where + m
                cur = {"res": res, "bands": list(names)}
                last = {"k": k, "tracks": copy.deepcopy(tracks), "cells": loc, "afs": afs_set}
                done = {"names": list(names), "tracks": last["tracks"], "cells": loc, "afs": afs_set, "nodata": snap["nodata"]}
                continue
            if cur is None or snap is None:
                done = None
                if snap is not None:
                    cur, last = {"res": None, "bands": [n for n, _ in snap["bands"]]}, None
                continue                                            # no raster the oracle knows about: nothing is demanded
            geo = snap["geo"]
            if kind == "band":
                name = op[1]
                legit = bool(name.strip()) and name not in cur["bands"] and (
                    len(op) == 2 or (len(op[2]) == geo[5] and all(len(row) == geo[4] for row in op[2])))
                if legit and outc != "ok":
                    return where + "a well-formed addAFMap raised %s" % outc
                if outc == "ok":
                    if name not in [n for n, _ in snap["bands"]]:
                        return where + "band %r is not listed after addAFMap: %s" % (name, [n for n, _ in snap["bands"]])
                    cur["bands"].append(name)
                    m = self.recheck_bands(geo, snap, done)
                    if m:
                        return where + m
                continue
            if kind == "nodata":
                if outc != "ok" or snap["nodata"] != self.pyval(op[1]):
                    return where + "no-data value %r after setNoDataValue(%r) (%s)" % (snap["nodata"], op[1], outc)
                # the no-data value is a marker for the cells WITHOUT value: changing it leaves every aggregate of a cell with values,
                # and the 0 of count / sum in the others, as they are (whatever they are equal to — the old marker included)
                m = self.recheck_bands(geo, snap, done)
                if m:
                    return where + m
                continue
            if kind == "add":
                tracks = colls[op[1]]
                afs = sorted({n.split("#")[0] for n in cur["bands"]})
                obs = [p for t in tracks for p in t["pts"]]
                legit = (cur["res"] is not None and all(self.s_featvals(t, a) is not None for t in tracks for a in afs)
                         and all(geo[0] <= p[0] <= geo[1] and geo[2] <= p[1] <= geo[3] for p in obs))
                done = None                                         # the bands now describe a collection that is no longer the one on the raster
                if not legit or outc != "ok":
                    last = None
                    if legit:
                        return where + "addCollectionToRaster of a collection inside the grid, with every feature, raised %s" % outc
                    continue
                pc = {"res": cur["res"], "mode": case["mode"]}
                if st["cells"] is None or len(st["cells"]) != len(obs):
                    return where + "cells for %s of %d observations" % (None if st["cells"] is None else len(st["cells"]), len(obs))
                for p, c in zip(obs, st["cells"]):
                    m = self.footprint(pc, geo, p[0], p[1], c)
                    if m:
                        return where + "observation (%r, %r) assigned to %s: %s" % (p[0], p[1], c, m)
                loc = self.locate(pc, geo, obs, st["cells"])
                m = self.check_values(geo, snap["values"], tracks, loc, afs)
                if m:
                    return where + m
                last = {"k": op[1], "tracks": copy.deepcopy(tracks), "cells": loc, "afs": afs}
                continue
            if kind == "compute":
                wf = all(len(n.split("#")) >= 2 and n.split("#")[1] in OPS for n in cur["bands"])
                legit = last is not None and wf and all(n.split("#")[0] in last["afs"] for n in cur["bands"])
                if legit and outc != "ok":
                    return where + "computeAggregates after a successful addCollectionToRaster, every band <feature>#<operator>, raised %s" % outc
                done = None
                if outc == "ok" and last is not None:
                    # the bands describe the collection LAST scattered on the raster (values as they were then; a raster that
                    # would read them at computeAggregates time is accepted too)
                    used = last["tracks"]
                    m = self.check_bands(geo, snap["nodata"], snap["bands"], last["tracks"], last["cells"], last["afs"])
                    if m and colls[last["k"]] != last["tracks"] and all(
                            self.s_featvals(t, a) is not None for t in colls[last["k"]] for a in last["afs"]):
                        if self.check_bands(geo, snap["nodata"], snap["bands"], colls[last["k"]], last["cells"], last["afs"]) is None:
                            m, used = None, copy.deepcopy(colls[last["k"]])
                    if m:
                        return where + "(bands after computeAggregates, collection %d scattered last) " % last["k"] + m
                    done = {"names": [n for n, g in snap["bands"] if g != "E"], "tracks": used, "cells": last["cells"], "afs": last["afs"],
                            "nodata": snap["nodata"]}
                continue
        return None

    # ---------------------------------------------------------------- generators
    def s_point(self, rng, mode, W, H, ox, oy):
        if mode == "q":
            x = rng.choice([0, W, rng.randrange(0, 2 * W + 1) / 2, rng.randrange(0, W + 1), rng.randrange(0, 4 * W + 1) / 4])
            y = rng.choice([0, H, rng.randrange(0, 2 * H + 1) / 2, rng.randrange(0, H + 1), rng.randrange(0, 4 * H + 1) / 4])
            return [ox + x, oy + y]
        return [ox + rng.choice([0.0, W, rng.uniform(0, W)]), oy + rng.choice([0.0, H, rng.uniform(0, H)])]

    def s_coll(self, rng, mode, pts, uid0, empty_ok):
        """pts(n): n successive positions of one track"""
        tracks = []
        lack_w = rng.random() < 0.2                                  # a track without the feature w
        for i in range(rng.randrange(1, 4)):
            n = rng.randrange(0 if (empty_ok and rng.random() < 0.15) else 1, 6)
            f = {}
            if n:
                f["v"] = self.values(rng, n)
                if mode == "f":
                    f["v"] = [v if v == "nan" else v + rng.choice([0, rng.uniform(-1, 1)]) for v in f["v"]]
                if not (lack_w and i == 0):
                    f["w"] = self.values(rng, n)
            tracks.append({"uid": uid0 + i, "pts": pts(n), "f": f})
        for t, l in zip(tracks, self.rand_layouts(rng, [list(t["f"]) for t in tracks])):
            if l is not None:
                t["layout"] = l
        return tracks

    def s_band(self, rng, odd=0.12):
        r = rng.random()
        if r < odd:
            return rng.choice(["", "v", "w", "v#undefined_op", "uid#undefined_co", "q#co_sum", "v#co_sum#bis"])
        f = rng.choice(["v", "v", "v", "w", "w", "uid", "x", "y", "idx"])
        return f + "#" + rng.choice(OPS)

    def s_grid(self, rng, box, res, mg):
        nc = max(1, math.ceil((box[1] - box[0]) * (1 + 2 * mg) / res[0])) + rng.choice([0, 0, 0, 0, 1, -1])
        nr = max(1, math.ceil((box[3] - box[2]) * (1 + 2 * mg) / res[1])) + rng.choice([0, 0, 0, 0, 1, -1])
        return [[float(rng.randrange(-3, 9)) for _ in range(max(0, nc))] for _ in range(max(0, nr))]

    def session(self, rng, mode, tpl=None, geom=None, walk=False):
        """geom: a near-integral float geometry (ni_geom); walk: the tracks are walks with steps below the ENUCoords
        equality tolerance across the cell edges of the raster built on the study area"""
        if geom is not None:
            (ox, x1, rx, _), (oy, y1, ry, _) = geom["x"], geom["y"]
            W, H, res, mg = x1 - ox, y1 - oy, [rx, ry], geom["mg"]
            pt = lambda: [self.ni_coord(rng, geom["x"], mg), self.ni_coord(rng, geom["y"], mg)]
        elif mode == "q":
            W, H = rng.randrange(1, 4), rng.randrange(1, 4)
            ox, oy = rng.choice([0, 0, -3, 10, 0.5]), rng.choice([0, 0, 5, -7, -0.5])
            res = list(rng.choice(RES))
            mg = rng.choice([0, 0, 0.125, 0.25, 0.5])
        else:
            W, H = rng.choice([1.0, 10.0, 1000.0]), rng.choice([1.0, 10.0, 1000.0])
            ox, oy = rng.uniform(-1e4, 1e4), rng.uniform(-1e4, 1e4)
            if walk:
                ox, oy = rng.choice([0.0, rng.uniform(-1e3, 1e3)]), rng.choice([0.0, rng.uniform(-1e3, 1e3)])
            res = [W / rng.choice([1, 2, 3, 4.5]), H / rng.choice([1, 2, 3, 4.5])]
            mg = rng.choice([0, 0.05, 0.1, 0.3])
        if geom is None:
            x1, y1 = ox + W, oy + H
            pt = lambda: self.s_point(rng, mode, W, H, ox, oy)
        pts = lambda n: [pt() for _ in range(n)]
        if walk:
            if tpl != "summ-reuse":                                    # the raster is built on the study area itself
                mg = rng.choice([0, 0, mg])
            pts = lambda n: self.walk(rng, mode, [ox, x1, oy, y1], res, mg, n) if n else []
        tpl = tpl or rng.choice(["reuse", "reuse", "reuse", "summ-reuse", "summ-reuse", "late-band", "change", "errors", "soup", "soup", "two-rasters", "nodata", "nodata", "remark", "remark"])
        ncoll = rng.randrange(2, 4)
        colls = [self.s_coll(rng, mode, pts, 1 + 10 * k, empty_ok=(k > 0)) for k in range(ncoll)]
        # collection 0 has no empty track and spans the study area: a raster built on its bounding box contains the others
        if not colls[0][0]["pts"]:
            colls[0][0]["pts"] = [[ox, oy]]
            colls[0][0]["f"] = {"v": [1.0], "w": [2.0]}
        for t in colls[0]:
            if not t["pts"]:
                t["pts"], t["f"] = [[x1, oy]], {"v": ["nan"], "w": [0.5]}
        colls[0][0]["pts"][0] = [ox, oy]
        t = colls[0][-1]
        t["pts"].append([x1, y1])
        for n in t["f"]:
            t["f"][n].append(rng.choice([1.0, "nan", -3.5]))
        area = [ox, x1, oy, y1]
        nov = None                                                  # None: the constructor's default; "None": novalue=None
        if tpl == "nodata" or rng.random() < 0.25:
            nov = rng.choice([-1.0, 0.0, -99999.0, 12345.0, -1.0, 0.5, "None"])
        def nodata():
            return ["nodata", rng.choice([-1.0, 0.0, -99999.0, 7.0, 2.5, "None"])]
        new = ["new", rng.choice([area, area, {"of": 0}]), res, mg, nov]
        if tpl == "errors" and rng.random() < 0.4:                  # a raster smaller than the study area: observations outside
            new = ["new", [ox, ox + W / 2, oy, oy + H / 2], res, mg, nov]
        bands = []
        for _ in range(rng.randrange(1, 6)):
            b = self.s_band(rng, 0.25 if tpl == "errors" else 0.04)
            bands.append(["band", b] if rng.random() > 0.08 else ["band", b, self.s_grid(rng, area, res, mg)])
        ops = []
        pick = lambda: rng.randrange(0, ncoll)
        def setfeat():
            k = pick()
            cand = [i for i, t in enumerate(colls[k]) if t["pts"]]
            if not cand:
                return None
            ti = rng.choice(cand)
            return ["setfeat", k, ti, rng.choice(["v", "v", "w"]), self.values(rng, len(colls[k][ti]["pts"]))]
        def delfeat(k=None):
            """a feature removed from ONE track (the later ones move down a rank), most of the time created again (now the last one)"""
            k = pick() if k is None else k
            cand = [i for i, t in enumerate(colls[k]) if t["pts"]]
            if not cand:
                return []
            ti = rng.choice(cand)
            name = rng.choice(["v", "v", "w"])
            out = [["delfeat", k, ti, name]]
            if rng.random() < 0.75:
                out.append(["setfeat", k, ti, name, self.values(rng, len(colls[k][ti]["pts"]))])
            return out
        def summ(k=None):
            ag = self.rand_aggs(rng)
            afs, opn = [a for a, _ in ag], [o for _, o in ag]
            r = rng.random()
            if r < 0.06:
                afs, opn = afs[:1], opn[:1]
                form = "scalar"
            else:
                form = rng.choice(["list", "list", "callable"])
            if r > 0.9:
                what = rng.choice(["dup", "short", "empty", "undef", "xy"])
                if what == "dup":
                    afs, opn = afs + afs[:1], opn + opn[:1]
                elif what == "short":
                    opn = opn[:-1]
                elif what == "empty":
                    afs, opn = [], []
                elif what == "undef":
                    opn[rng.randrange(len(opn))] = "undefined_op"
                else:
                    afs, opn = afs + ["x", "idx"], opn + [rng.choice(OPS), rng.choice(OPS)]
            return ["summarize", pick() if k is None else k, afs, opn, res, mg, form]
        if tpl == "reuse":
            ops = [new] + bands
            for _ in range(rng.randrange(2, 4)):
                ops += [["add", pick()]] + ([nodata()] if rng.random() < 0.15 else []) + [["compute"]]
        elif tpl == "nodata":
            # the raster's own no-data value: given to the constructor, changed before the bands / between
            # addCollectionToRaster and computeAggregates / between two computeAggregates
            ops = [new] + ([nodata()] if rng.random() < 0.3 else []) + bands + [["add", pick()]]
            ops += ([nodata()] if rng.random() < 0.6 else []) + [["compute"]]
            if rng.random() < 0.6:
                ops += [nodata(), ["compute"]]
            if rng.random() < 0.5:
                ops += [["add", pick()]] + ([nodata()] if rng.random() < 0.5 else []) + [["band", self.s_band(rng, 0.0)], ["compute"]]
        elif tpl == "remark":
            # the no-data value changed AFTER the bands were computed (once, several times in a row, again after another pass), with
            # markers that collide with genuine aggregates: 0 (the count / sum of every cell without value), small counts, -1, values
            # the features take, the uid (min / max / mean / median of a uid band), the default marker, None
            k = pick()
            ops = self.remark_ops(rng, colls, k, new, res, mg, summ)
        elif tpl == "summ-reuse":
            ops = [summ(0)]
            for _ in range(rng.randrange(1, 3)):
                if rng.random() < 0.3:
                    ops.append(["band", self.s_band(rng, 0.0)])
                ops += [["add", pick()], ["compute"]]
        elif tpl == "late-band":
            ops = [new] + bands + [["add", pick()], ["compute"], ["band", self.s_band(rng, 0.0)], ["compute"]]
            if rng.random() < 0.5:
                ops += [["add", pick()], ["band", self.s_band(rng, 0.05)], ["compute"]]
        elif tpl == "change":
            k = pick()
            ops = [new] + bands
            if rng.random() < 0.3:                                   # before the first scatter: the tracks of k no longer share one layout
                ops += delfeat(k)
            ops.append(["add", k])
            for _ in range(rng.randrange(1, 3)):
                if rng.random() < 0.3:
                    ops += delfeat(k)
                    continue
                sf = setfeat()
                if sf:
                    ops.append(sf)
            ops += [["compute"], ["add", k], ["compute"]]
        elif tpl == "two-rasters":
            new = ["new", area, res, mg if mg else (0.25 if mode == "q" else 0.1), nov]
            ops = [new] + bands + [["add", pick()], ["compute"], list(new)] + bands[:2] + [["add", pick()], ["compute"]]
        elif tpl == "errors":
            ops = [new]
            if rng.random() < 0.3:
                ops.append(["compute"])
            ops += bands
            if rng.random() < 0.3:
                ops.append(["compute"])
            ops += [["add", pick()], ["compute"], ["band", self.s_band(rng, 0.3)], ["compute"], ["add", pick()], ["compute"]]
        else:
            ops = [new if rng.random() < 0.7 else summ()]
            for _ in range(rng.randrange(3, 10)):
                r = rng.random()
                if r < 0.2:
                    ops.append(["band", self.s_band(rng)] if rng.random() > 0.1 else ["band", self.s_band(rng), self.s_grid(rng, area, res, mg)])
                elif r < 0.5:
                    ops.append(["add", pick()])
                elif r < 0.8:
                    ops.append(["compute"])
                elif r < 0.87:
                    sf = setfeat()
                    if sf:
                        ops.append(sf)
                elif r < 0.9:
                    ops += delfeat()
                elif r < 0.95:
                    ops.append(summ())
                else:
                    ops.append(nodata())
        return {"kind": "session", "mode": mode, "tpl": tpl, "colls": colls, "ops": ops}

    def collide_pool(self, tracks):
        """no-data markers that coincide with aggregates a raster of these tracks can hold"""
        vs = [v for t in tracks for v in t["f"].get("v", []) if v != "nan"]
        pool = [0.0, 0.0, 0.0, -1.0, -1.0, 1.0, 2.0, NO_DATA, "None"]
        pool += [float(t["uid"]) for t in tracks[:1]]
        pool += vs[:2] + ([math.fsum(vs)] if vs else [])
        return pool

    def remark_ops(self, rng, colls, k, new, res, mg, summ):
        pool = self.collide_pool(colls[k])
        mark = lambda: ["nodata", rng.choice(pool)]
        if rng.random() < 0.35:
            head = [summ(k)]                                         # the raster summarize() returns (marker NO_DATA_VALUE)
        else:
            new = list(new)
            if rng.random() < 0.7:
                new[4] = rng.choice(pool)
            names = ["v#co_count", "v#co_sum"] + rng.sample(["v#co_min", "v#co_max", "v#co_avg", "v#co_median", "uid#co_min", "uid#co_count",
                                                               "w#co_sum", "w#co_max", "x#co_min", "idx#co_sum"], rng.randrange(1, 4))
            rng.shuffle(names)
            names = names[:rng.randrange(2, len(names) + 1)]
            head = [new] + [["band", n] for n in names] + [["add", k]] + ([mark()] if rng.random() < 0.2 else []) + [["compute"]]
        ops = head + [mark() for _ in range(rng.randrange(1, 4))]
        r = rng.random()
        if r < 0.3:
            ops += [["band", self.s_band(rng, 0.0)], mark()]
        elif r < 0.6:
            ops += [["compute"]] + [mark() for _ in range(rng.randrange(1, 3))]
        elif r < 0.75:
            ops += [["add", rng.randrange(0, len(colls))], ["compute"], mark()]
        return ops

    def remark_enum(self):
        """every sequence of 1..3 calls from {setNoDataValue(0), setNoDataValue(1), setNoDataValue(-99999.0), setNoDataValue(None),
        computeAggregates} on a raster whose bands have just been computed, for the constructor's novalue in {default, 0, 1, None}"""
        c0 = [{"uid": 1, "pts": [[0, 0], [0.5, 0.5], [2, 2]], "f": {"v": [1.0, "nan", 0.0], "w": [2.0, -1.0, "nan"]}},
              {"uid": 2, "pts": [[1.5, 0.5]], "f": {"v": [-99999.0], "w": [1.0]}}]
        alpha = [["nodata", 0.0], ["nodata", 1.0], ["nodata", NO_DATA], ["nodata", "None"], ["compute"]]
        for nov in (None, 0.0, 1.0, "None"):
            head = [["new", [0, 2, 0, 2], [1, 1], 0, nov], ["band", "v#co_count"], ["band", "v#co_min"], ["band", "w#co_sum"], ["band", "w#co_avg"],
                    ["add", 0], ["compute"]]
            for n in (1, 2, 3):
                for seq in itertools.product(alpha, repeat=n):
                    yield {"kind": "session", "mode": "q", "tpl": "remark-enum", "colls": [c0], "ops": head + [list(o) for o in seq]}

    def partial_enum(self):
        """the exception path of addCollectionToRaster, exhaustively on a small scope: two (or three) tracks of three observations with the
        features v, w on a raster over [0,2]^2 with unit cells; ONE observation — every (track, rank) in turn — moved outside the extent;
        bands on v and w added in both orders; the TypeError caught, then computeAggregates (and setNoDataValue + computeAggregates):
        what has been written to which grid (a prefix of the track x feature x observation order, theorem add_collection_partial) and
        what the bands then hold (partial_then_compute) are compared with the model after every call"""
        base = [{"uid": 1, "pts": [[0.5, 0.5], [1.5, 0.5], [0.5, 1.5]], "f": {"v": [1.0, 2.0, "nan"], "w": [10.0, "nan", 30.0]}},
                {"uid": 2, "pts": [[1.5, 1.5], [0.5, 0.5], [2, 2]], "f": {"v": [4.0, 5.0, 6.0], "w": [40.0, 50.0, 60.0]}},
                {"uid": 3, "pts": [[0, 0], [1.5, 0.5], [1, 1]], "f": {"v": [7.0, "nan", 9.0], "w": [70.0, 80.0, 90.0]}}]
        orders = [["v#co_count", "w#co_count", "w#co_sum", "v#co_max"], ["w#co_count", "w#co_sum", "v#co_count", "v#co_max"]]
        for ntr in (2, 3):
            for ti in range(ntr):
                for oi in range(3):
                    for out in ([3, 3], [-0.5, 1]):
                        coll = copy.deepcopy(base[:ntr])
                        coll[ti]["pts"][oi] = list(out)
                        for bands in orders:
                            ops = [["new", [0, 2, 0, 2], [1, 1], 0, None]] + [["band", b] for b in bands]
                            ops += [["add", 0], ["compute"], ["nodata", -1.0], ["compute"]]
                            yield {"kind": "session", "mode": "q", "tpl": "partial-enum", "colls": [coll], "ops": ops}

    def remark_variants(self, case, rng):
        """neighbours of a session: setNoDataValue calls with colliding markers inserted after a computeAggregates / summarize"""
        ops = case["ops"]
        at = [i for i, o in enumerate(ops) if o[0] in ("compute", "summarize")]
        if not at:
            return
        pool = self.collide_pool([t for c in case["colls"] for t in c])
        for _ in range(4):
            i = rng.choice(at)
            ins = [["nodata", rng.choice(pool)] for _ in range(rng.randrange(1, 3))]
            c = copy.deepcopy(case)
            c["ops"] = ops[:i + 1] + ins + ops[i + 1:]
            c["tpl"] = "remark-mut"
            yield c
        # ... and the constructor's own marker replaced by a colliding one
        for j, o in enumerate(ops):
            if o[0] == "new":
                c = copy.deepcopy(case)
                c["ops"][j][4] = rng.choice([0.0, -1.0, 1.0])
                i = rng.choice([a for a in at if a > j] or at)
                c["ops"] = c["ops"][:i + 1] + [["nodata", rng.choice(pool)]] + c["ops"][i + 1:]
                c["tpl"] = "remark-mut"
                yield c
                break

    def session_enum(self, tier):
        """every sequence of calls from a small alphabet on a raster over [0,2]^2 with unit cells:
        quick: 1..5 calls from {addAFMap(v#co_count), add(c0), add(c1), computeAggregates}, the band w#co_median present from the start;
        thorough: 1..6 calls from those and addAFMap(w#co_median), no band at the start"""
        c0 = [{"uid": 1, "pts": [[0, 0], [0.5, 0.5], [2, 2]], "f": {"v": [1.0, "nan", 3.0], "w": [2.0, 2.0, "nan"]}},
              {"uid": 2, "pts": [[1.5, 0.5]], "f": {"v": [5.0], "w": [1.0]}}]
        c1 = [{"uid": 7, "pts": [[0.25, 1.75], [1.5, 0.5], [1.5, 0.25]], "f": {"v": ["nan", 4.0, 6.0], "w": [1.0, 1.0, 1.0]}}]
        alpha = [["band", "v#co_count"], ["add", 0], ["add", 1], ["compute"]]
        head = [["new", [0, 2, 0, 2], [1, 1], 0, None], ["band", "w#co_median"]]
        maxlen = 5
        if tier != "quick":
            alpha, head, maxlen = alpha + [["band", "w#co_median"]], head[:1], 6
        for n in range(1, maxlen + 1):
            for seq in itertools.product(alpha, repeat=n):
                yield {"kind": "session", "mode": "q", "tpl": "enum", "colls": [c0, c1], "ops": head + [list(o) for o in seq]}

    def describe_session(self, case):
        ops = [o[0] for o in case["ops"]]
        adds = [o[1] for o in case["ops"] if o[0] == "add"]
        return {"kind": "session-" + case["mode"], "tpl": case.get("tpl", "?"), "calls": min(len(ops), 12),
                "adds": len(adds) + ops.count("summarize"), "computes": ops.count("compute"),
                "collections_added": len(set(adds)), "first": ops[0],
                "layouts": ("ranks-differ" if any(self.mixed_layouts([(list(t["f"]), t.get("layout")) for t in c]) for c in case["colls"])
                            else "scripted, same ranks" if any(t.get("layout") is not None for c in case["colls"] for t in c) else "default"),
                "delfeat": "delfeat" in ops}

    def nontrivial_session(self, case):
        """a collection is scattered on a raster that already held another one's values, or is aggregated at all"""
        ops = [o[0] for o in case["ops"]]
        return ("add" in ops or "summarize" in ops) and ("compute" in ops or "summarize" in ops)

    def shrink_session(self, case):
        ops = case["ops"]
        for i in range(len(ops) - 1, 0, -1):
            yield dict(case, ops=ops[:i] + ops[i + 1:])
        touched = {o[1] for o in ops if o[0] in ("setfeat", "delfeat")}
        for k, col in enumerate(case["colls"]):
            if k in touched:
                continue
            if len(col) > 1:
                for ti in range(len(col)):
                    yield dict(case, colls=case["colls"][:k] + [col[:ti] + col[ti + 1:]] + case["colls"][k + 1:])
            for ti, t in enumerate(col):
                if len(t["pts"]) > 1:
                    for j in range(len(t["pts"])):
                        t2 = dict(t, pts=t["pts"][:j] + t["pts"][j + 1:], f={n: v[:j] + v[j + 1:] for n, v in t["f"].items()})
                        yield dict(case, colls=case["colls"][:k] + [col[:ti] + [t2] + col[ti + 1:]] + case["colls"][k + 1:])
        for k, col in enumerate(case["colls"]):
            for ti, t in enumerate(col):
                if t.get("layout") is not None:
                    t2 = {a: b for a, b in t.items() if a != "layout"}
                    yield dict(case, colls=case["colls"][:k] + [col[:ti] + [t2] + col[ti + 1:]] + case["colls"][k + 1:])


# ---- tie to the source by translation (tools/py2lean.py -> lean/TracklibVerif/Gen/Raster.lean, regenerated on every run)
P.tie_modules = ["TracklibVerif.Tie.C19"]
P.theorems = P.theorems + [
    ("TracklibVerif.Tie.C19", "TV.Tie.C19.tie_getCell", "the Lean translation of the CURRENT source of Raster.getCell equals the model's getCell on all arguments (resolution != 0; int() = floor on integral floats; the scalar's == is Python's ==)"),
]
# ---- cell operators of core/utils.py (tools/py2lean.py -> lean/TracklibVerif/Gen/Utils.lean), instantiated at the NaN-extended scalar
P.theorems = P.theorems + [
    ("TracklibVerif.Tie.C19", "TV.Tie.C19.tie_co_sum", "the Lean translation of the CURRENT source of co_sum, at the NaN-extended scalar, returns the model's coSum on every list (<= reflexive on non-NaN values)"),
    ("TracklibVerif.Tie.C19", "TV.Tie.C19.tie_co_min", "the translation of co_min returns the model's coMin (none = NaN) on every list"),
    ("TracklibVerif.Tie.C19", "TV.Tie.C19.tie_co_max", "the translation of co_max returns the model's coMax (none = NaN) on every list"),
    ("TracklibVerif.Tie.C19", "TV.Tie.C19.tie_co_count", "the translation of co_count returns the model's coCount (number of non-NaN values) on every list"),
    ("TracklibVerif.Tie.C19", "TV.Tie.C19.tie_co_avg", "the translation of co_avg returns the model's coAvg on every list, no ZeroDivisionError (int->float conversion = NatCast; a positive count is not == 0)"),
    ("TracklibVerif.Tie.C19", "TV.Tie.C19.tie_co_median", "the translation of co_median (selection sort with list.remove) returns the model's coMedian on every list, no IndexError/ValueError (model == is Python ==; int(k/2) = k//2; int(k/2-1) = k//2-1 for even k; 0.5 = 1/2)"),
]
