"""C19 — grid summarising conserves observations and aggregates per cell
(tracklib/core/raster.py Raster / getCell / addCollectionToRaster / computeAggregates,
algo/summarising.py summarize, core/utils.py co_*)."""
import math, statistics, itertools
from fractions import Fraction
from engine import Prop, fbits, bitsf, ratstr, parse_rat, tok_list, untok, close

NAN = float("nan")
NO_DATA = -99999.0
OPS = ["co_count", "co_sum", "co_min", "co_max", "co_avg", "co_median"]
OPCH = {"co_count": "c", "co_sum": "s", "co_min": "m", "co_max": "M", "co_avg": "a", "co_median": "d"}
DEFAULT_AGGS = [["v", o] for o in OPS] + [["uid", "co_count"]]
RES = [(1, 1), (0.5, 0.5), (2, 1), (1, 2), (1.5, 1), (0.5, 2), (3, 1), (1, 3), (2, 2), (0.25, 0.5), (1, 1.5)]


def isnan(v):
    return isinstance(v, float) and v != v


def fr(v):
    return Fraction(v)


class P(Prop):
    id = "C19"
    design_ref = "DESIGN.md section 5, C19"
    theorems = [
        ("TracklibVerif.Props.C19", "TV.C19.cell_footprint", "a point of the extent gets a cell 0<=col<ncol, 0<=line<nrow whose footprint (half-open, closed on the outer top/right) contains it, and no other cell's footprint does"),
        ("TracklibVerif.Props.C19", "TV.C19.cell_outside", "a point outside the extent gets no cell"),
        ("TracklibVerif.Props.C19", "TV.C19.conservation", "the scatter never fails; cell (i,j) holds exactly the values of the observations whose getCell is (j,i); sizes sum to the number of observations, any per-value weight (e.g. non-NaN) is conserved"),
        ("TracklibVerif.Props.C19", "TV.C19.aggregate_spec", "co_count/co_sum/co_min/co_max/co_avg/co_median = that aggregate over the non-NaN values; no non-NaN value -> 0 for count and sum, no-data otherwise"),
        ("TracklibVerif.Props.C19", "TV.C19.aggregates_entry", "computeAggregates writes, in (line i, column j), the operator's value on that cell with NaN replaced by the no-data value"),
        ("TracklibVerif.Props.C19", "TV.C19.summarize_spec", "end to end: on every non-empty collection (a north-south / east-west line of observations or a single one included: one column / one row) summarize never fails, builds a well-formed grid covering all observations and returns computeAggregates of cells holding exactly the located values"),
        ("TracklibVerif.Props.C19", "TV.C19.rat_floor_ceil", "the driver's Rat.floor / Rat.ceil are the Int.floor / Int.ceil of the theorems"),
    ]
    partial = []
    open_statements = ["IEEE rounding in (x-xmin)/rx, margins and sums is outside the theorems (floor-ring statement); sampled by the transfer check"]
    modelled = ("core/raster.py Raster.__init__ (margin, ncol/nrow = max(1, ceil(..))), getCell, addAFMap/addCollectionToRaster (scatter with Python list indexing), "
                "computeAggregates (NaN -> no-data); core/utils.py co_count co_sum co_min co_max co_avg co_median; the collection's bounding box is "
                "modelled as min/max of the coordinates")
    trusted = ["math.floor / math.ceil / float.is_integer are taken as exact floor, ceiling and integrality of the float"]
    rule = ("exhaustive: grids over [0,W]x[0,H] (W,H in 1..3) for every listed resolution, getCell of every half-integer lattice point in [-0.5,W+0.5]x[-0.5,H+0.5]; "
            "one-track collections (0,0),(2,2),p for every lattice p in [0,2]^2, every listed resolution; "
            "every north-south and east-west line of 1..4 observations (steps 0.5 and 1; 1 observation = a single fix) for every listed resolution, margins 0 and 0.25 "
            "(extent of zero width / height: one column / one row); "
            "random: 1..3 tracks on a half-integer lattice (cell borders, outer border, corners; 1 in 4 collections lies on one vertical or horizontal line or at a single position), square and non-square resolutions, margins 0/0.125/0.25/0.5 at Rat "
            "and 0.05/0.1/0.3 at Float, random float coordinates at Float (1 in 6 on one line / at one position); two features v, w with NaN plus uid; "
            "ONE summarize call per case with several (feature, operator) pairs in a generated order (all six operators on v shuffled, or 2..4 operators on v "
            "in any order mixed with operators on w and uid; median first / in the middle / last), every produced grid is checked; 1 in 5 cases summarises the same "
            "collection twice; exhaustive: every ordered pair and triple of distinct operators on one feature over a fixed collection; "
            "direct calls of the cell operators in sequence on ONE list (every ordered pair on fixed lists, random sequences), checking the values and that the list "
            "is left unchanged. "
            "non-trivial = a grid of at least 2 cells and at least 2 observations (sum), any (cell, op)")

    def setup(self):
        from tracklib.core.obs import Obs
        from tracklib.core.obs_coords import ENUCoords
        from tracklib.core.obs_time import ObsTime
        from tracklib.core.track import Track
        from tracklib.core.track_collection import TrackCollection
        from tracklib.core.bbox import Bbox
        from tracklib.core.raster import Raster
        from tracklib.algo.summarising import summarize
        import tracklib.core.utils as U
        self.Obs, self.ENU, self.T, self.Track, self.TC = Obs, ENUCoords, ObsTime, Track, TrackCollection
        self.Bbox, self.Raster, self.summarize = Bbox, Raster, summarize
        self.opf = {o: getattr(U, o) for o in OPS}

    # ---------------------------------------------------------------- generators
    def exhaustive_scopes(self, tier):
        return ["getCell of every half-integer lattice point of [-0.5,W+0.5]x[-0.5,H+0.5] on the grids over [0,W]x[0,H], W,H in 1..3, for %d resolutions" % len(RES),
                "collections {(0,0),(2,2),p}, p over the 25 half-integer lattice points of [0,2]^2, %d resolutions, margin 0" % len(RES),
                "collections of 1..4 observations on one north-south or east-west line (steps 0.5 and 1), %d resolutions, margins 0 and 0.25" % len(RES),
                "one summarize call with every ordered pair (30) and every ordered triple (120) of distinct operators on the same feature, fixed collection with NaN-free, mixed and all-NaN cells",
                "every ordered pair (36, including the same operator twice) of cell operators called in sequence on one list, for 6 fixed lists"]

    def cases(self, rng, tier):
        out = []
        for W in (1, 2, 3):
            for H in (1, 2, 3):
                for res in RES:
                    pts = [[i / 2, j / 2] for i in range(-1, 2 * W + 2) for j in range(-1, 2 * H + 2)]
                    out.append({"kind": "cell", "mode": "q", "box": [0, W, 0, H], "res": list(res), "margin": 0, "pts": pts})
        for res in RES:
            for i in range(5):
                for j in range(5):
                    out.append({"kind": "sum-enum", "mode": "q", "tracks": [[[0, 0, 1.0], [2, 2, 2.0], [i / 2, j / 2, 4.0]]],
                                "res": list(res), "margin": 0})
        # extents of zero width / height: every line of 1..4 observations (1 = a single fix), both directions
        for res in RES:
            for n in (1, 2, 3, 4):
                for step in (0.5, 1.0):
                    if n == 1 and step != 1.0:
                        continue
                    for vert in (True, False):
                        for mg in (0, 0.25):
                            vs = [1.0, "nan", 3.0, -2.0]
                            tr = [[1.0 if vert else k * step, k * step if vert else 2.0, vs[k]] for k in range(n)]
                            out.append({"kind": "sum-line-enum", "mode": "q", "tracks": [tr], "res": list(res), "margin": mg})
        # several aggregates of one feature in one call, in every order
        fixed = [[[0, 0, 3.0, 1.0], [0.5, 0.5, 1.0, "nan"], [0.25, 0.75, 2.0, 2.0], [1.5, 0.5, "nan", 4.0], [1.5, 0.25, 5.0, 4.0]],
                 [[0.5, 1.5, "nan", 7.0], [1.5, 1.5, 4.0, 0.5], [2, 2, 6.0, "nan"], [1.25, 1.75, 4.0, 1.5], [0.75, 0.25, -1.0, 3.0]]]
        for k in (2, 3):
            for perm in itertools.permutations(OPS, k):
                out.append({"kind": "sum-aggs-enum", "mode": "q", "tracks": fixed, "res": [1, 1], "margin": 0,
                            "aggs": [["v", o] for o in perm] + [["uid", "co_count"]]})
        lists = [[1.0, 2.0, 3.0], [2.0, 1.0], [5.0], ["nan", 1.0, 2.0], ["nan"], []]
        for vals in lists:
            for a in OPS:
                for b in OPS:
                    out.append({"kind": "op", "mode": "q", "vals": vals, "order": [a, b]})
        nrand = 2500 if tier == "quick" else 40000
        for _ in range(nrand // 2):
            n = rng.randrange(0, 8)
            out.append({"kind": "op", "mode": "q", "vals": self.values(rng, n),
                        "order": [rng.choice(OPS) for _ in range(rng.randrange(2, 7))]})
        for _ in range(nrand):
            out.append(self.lattice(rng, "q"))
        for _ in range(nrand // 2):
            out.append(self.lattice(rng, "f"))
        for _ in range(nrand // 2):
            out.append(self.floaty(rng))
        for _ in range(nrand // 5):
            out.append(self.cellcase(rng))
        return out

    def values(self, rng, n):
        style = rng.choice(["plain", "nan", "allnan", "ties"])
        vs = []
        for _ in range(n):
            if style == "allnan" or (style == "nan" and rng.random() < 0.35):
                vs.append("nan")
            elif style == "ties":
                vs.append(float(rng.randrange(0, 3)))
            else:
                vs.append(rng.choice([0.0, 1.0, -2.0, 0.5, 7.25, float(rng.randrange(-20, 20)), rng.randrange(-40, 40) / 4]))
        return vs

    def lattice(self, rng, mode):
        W, H = rng.randrange(1, 5), rng.randrange(1, 5)
        ox, oy = rng.choice([0, 0, -3, 10, 0.5]), rng.choice([0, 0, 5, -7, -0.5])
        ntr = rng.randrange(1, 4)
        tracks = []
        for _ in range(ntr):
            n = rng.randrange(1, 9)
            tr = []
            vs, ws = self.values(rng, n), self.values(rng, n)
            for k in range(n):
                x = rng.choice([0, W, rng.randrange(0, 2 * W + 1) / 2, rng.randrange(0, W + 1)])
                y = rng.choice([0, H, rng.randrange(0, 2 * H + 1) / 2, rng.randrange(0, H + 1)])
                tr.append([ox + x, oy + y, vs[k], ws[k]])
            tracks.append(tr)
        # the two opposite corners are always present (the extent is the whole box) ...
        tracks[0][0][0], tracks[0][0][1] = ox, oy
        tracks[-1].append([ox + W, oy + H, rng.choice([1.0, "nan", -3.5]), rng.choice([2.0, "nan"])])
        # ... except for 1 collection in 4: all observations on one north-south line, one east-west line, or at one position
        self.flatten(rng, tracks)
        margin = rng.choice([0, 0, 0.125, 0.25, 0.5]) if mode == "q" else rng.choice([0.05, 0.1, 0.1, 0.3])
        return {"kind": "sum-lattice-" + mode, "mode": mode, "tracks": tracks, "res": list(rng.choice(RES)), "margin": margin,
                "aggs": self.rand_aggs(rng), "runs": 2 if rng.random() < 0.2 else 1}

    def rand_aggs(self, rng):
        """the (feature, operator) pairs of ONE summarize call, in call order"""
        if rng.random() < 0.4:
            aggs = [["v", o] for o in OPS]
            rng.shuffle(aggs)
            aggs.insert(rng.randrange(0, len(aggs) + 1), ["uid", "co_count"])
            return aggs
        aggs = [["v", o] for o in rng.sample(OPS, rng.randrange(2, 5))]
        if rng.random() < 0.5 and ["v", "co_median"] not in aggs:
            aggs[rng.randrange(0, len(aggs))] = ["v", "co_median"]
        if rng.random() < 0.6:
            aggs += [["w", o] for o in rng.sample(OPS, rng.randrange(1, 4))]
        if rng.random() < 0.7:
            aggs += [["uid", o] for o in rng.sample(OPS, rng.randrange(1, 3))]
        rng.shuffle(aggs)
        return aggs

    def floaty(self, rng):
        ntr = rng.randrange(1, 4)
        sx, sy = rng.choice([1.0, 10.0, 1000.0]), rng.choice([1.0, 10.0, 1000.0])
        ox, oy = rng.uniform(-1e4, 1e4), rng.uniform(-1e4, 1e4)
        tracks = []
        for _ in range(ntr):
            n = rng.randrange(1, 7)
            vs = self.values(rng, n)
            ws = self.values(rng, n)
            tracks.append([[ox + rng.uniform(0, sx), oy + rng.uniform(0, sy), vs[k] if vs[k] == "nan" else vs[k] + rng.choice([0, rng.uniform(-1, 1)]), ws[k]] for k in range(n)])
        tracks[0].append([ox + sx * 1.01, oy + sy * 1.01, 1.0, "nan"])
        tracks[-1].append([ox - sx * 0.01, oy - sy * 0.01, 2.0, 3.0])
        if rng.random() < 2 / 3:
            self.flatten(rng, tracks)
        res = [sx / rng.choice([1, 2, 3, 4.5, 7]), sy / rng.choice([1, 2, 3, 4.5, 7])]
        return {"kind": "sum-float", "mode": "f", "tracks": tracks, "res": res, "margin": rng.choice([0, 0.05, 0.1, 0.3]),
                "aggs": self.rand_aggs(rng), "runs": 2 if rng.random() < 0.2 else 1}

    def cellcase(self, rng):
        W, H = rng.randrange(1, 6), rng.randrange(1, 6)
        ox, oy = rng.choice([0, -3, 10.5]), rng.choice([0, 5, -7.5])
        pts = [[ox + rng.randrange(-2, 2 * W + 3) / 2, oy + rng.randrange(-2, 2 * H + 3) / 2] for _ in range(12)]
        return {"kind": "cell", "mode": "q", "box": [ox, ox + W, oy, oy + H], "res": list(rng.choice(RES)),
                "margin": rng.choice([0, 0, 0.25, 0.5]), "pts": pts}

    def flatten(self, rng, tracks):
        """with probability 1/4 move all the observations on one vertical / horizontal line or to one position
        (an extent without width / height); sometimes a single observation"""
        shape = rng.choice(["box"] * 9 + ["vline", "hline", "point"])
        if shape == "box":
            return
        x0, y0 = tracks[-1][-1][0], tracks[-1][-1][1]
        if shape == "point" and rng.random() < 0.5:
            del tracks[1:]
            del tracks[0][1:]
        for tr in tracks:
            for o in tr:
                if shape in ("vline", "point"):
                    o[0] = x0
                if shape in ("hline", "point"):
                    o[1] = y0

    def all_obs(self, case):
        return [o for tr in case["tracks"] for o in tr]

    def aggs(self, case):
        return case.get("aggs") or DEFAULT_AGGS

    def feats(self, case):
        out = []
        for f, _ in self.aggs(case):
            if f not in out:
                out.append(f)
        return out

    def fvals(self, case, feat):
        """the values of feature `feat` per observation, in scatter order"""
        out = []
        for i, tr in enumerate(case["tracks"]):
            for o in tr:
                out.append(float(i + 1) if feat == "uid" else o[2] if feat == "v" else o[3])
        return out

    def extent(self, case):
        """shape of the collection's extent: box / vline (no width) / hline (no height) / point"""
        obs = self.all_obs(case)
        nx, ny = len({o[0] for o in obs}), len({o[1] for o in obs})
        return "point" if nx == 1 and ny == 1 else "vline" if nx == 1 else "hline" if ny == 1 else "box"

    def ncells(self, case):
        """number of cells of the grid the constructor has to build (up to rounding), for the histogram only"""
        obs = self.all_obs(case)
        n = 1
        for k in (0, 1):
            w = (max(o[k] for o in obs) - min(o[k] for o in obs)) * (1 + 2 * case["margin"])
            n *= max(1, math.ceil(w / case["res"][k]))
        return n

    def describe(self, case):
        if case["kind"] == "op":
            return self.describe_op(case)
        t = {"kind": case["kind"], "res": "square" if case["res"][0] == case["res"][1] else "non-square", "margin": case["margin"]}
        if case["kind"].startswith("sum"):
            t["tracks"] = len(case["tracks"])
            t["extent"] = self.extent(case)
            t["has_nan"] = any(o[2] == "nan" for o in self.all_obs(case))
            ag = self.aggs(case)
            t["naggs"] = len(ag)
            t["runs"] = case.get("runs", 1)
            vops = [o for f, o in ag if f == "v"]
            t["median_on_v"] = ("none" if "co_median" not in vops else "only" if len(vops) == 1 else
                                "first" if vops[0] == "co_median" else "last" if vops[-1] == "co_median" else "middle")
        return t

    def describe_op(self, case):
        return {"kind": "op", "n": len(case["vals"]), "has_nan": "nan" in case["vals"], "first": case["order"][0]}

    def nontrivial(self, case):
        if case["kind"] in ("cell", "op"):
            return True
        return len(self.all_obs(case)) >= 2 and self.ncells(case) >= 2

    # ---------------------------------------------------------------- implementation
    def impl(self, case):
        if case["kind"] == "cell":
            b = case["box"]
            r = self.Raster(self.Bbox(self.ENU(b[0], b[2], 0), self.ENU(b[1], b[3], 0)), tuple(case["res"]), case["margin"])
            cells = []
            for p in case["pts"]:
                c = r.getCell(self.ENU(p[0], p[1], 0))
                cells.append(None if c is None else [int(c[0]), int(c[1])])
            return {"geo": [r.xmin, r.xmax, r.ymin, r.ymax, r.ncol, r.nrow], "cells": cells}
        if case["kind"] == "op":
            lst = [NAN if v == "nan" else v for v in case["vals"]]
            res = [self.opf[o](lst) for o in case["order"]]      # the SAME list object is handed to every operator
            return {"res": res, "after": list(lst)}
        tracks = []
        for uid, tr in enumerate(case["tracks"]):
            t = self.Track([], uid + 1)
            for k, o in enumerate(tr):
                t.addObs(self.Obs(self.ENU(o[0], o[1], 0), self.T.readUnixTime(1000 + k)))
            for idx, name in ((2, "v"), (3, "w")):
                if name in self.feats(case):
                    t.createAnalyticalFeature(name)
                    for k, o in enumerate(tr):
                        t.setObsAnalyticalFeature(name, k, NAN if o[idx] == "nan" else o[idx])
            tracks.append(t)
        col = self.TC(tracks)
        ag = self.aggs(case)
        out = None
        for run in range(case.get("runs", 1)):
            # ONE call with all (feature, operator) pairs, in the case's order
            r = self.summarize(col, [f for f, _ in ag], [self.opf[o] for _, o in ag], tuple(case["res"]), case["margin"])
            cells = []
            for t in tracks:
                for k in range(t.size()):
                    c = r.getCell(t.getObs(k).position)
                    cells.append(None if c is None else [int(c[0]), int(c[1])])
            grids = {f + "#" + o: [list(row) for row in r.getAFMap(f + "#" + o).grid] for f, o in ag}
            if out is None:
                out = {"geo": [r.xmin, r.xmax, r.ymin, r.ymax, r.ncol, r.nrow], "cells": cells, "grids": grids}
            else:
                out["again"] = {"geo": [r.xmin, r.xmax, r.ymin, r.ymax, r.ncol, r.nrow], "cells": cells, "grids": grids}
        return out

    # ---------------------------------------------------------------- model
    def enc(self, case):
        if case["mode"] == "q":
            return lambda v: "nan" if v == "nan" else ratstr(v)
        return lambda v: "nan" if v == "nan" else fbits(v)

    def dec(self, case):
        if case["mode"] == "q":
            return lambda w: NAN if w == "nan" else float(parse_rat(w))
        return bitsf

    def requests(self, case):
        e = self.enc(case)
        m = case["mode"]
        if case["kind"] == "cell":
            b, res, mg = case["box"], case["res"], case["margin"]
            head = "C19.cell %s %s %s %s %s %s %s %s" % (m, e(b[0]), e(b[1]), e(b[2]), e(b[3]), e(res[0]), e(res[1]), e(mg))
            return ["%s %s %s" % (head, e(p[0]), e(p[1])) for p in case["pts"]]
        if case["kind"] == "op":
            return ["C19.agg %s %s %s" % (m, tok_list(e(v) for v in case["vals"]), "".join(OPCH[o] for o in case["order"]))]
        obs = self.all_obs(case)
        xs, ys = tok_list(e(o[0]) for o in obs), tok_list(e(o[1]) for o in obs)
        tail = "%s %s %s" % (e(case["res"][0]), e(case["res"][1]), e(case["margin"]))
        # the aggregates are pure functions of the cell contents: one model request per feature, its operators in call order
        return ["C19.sum %s %s %s %s %s %s" % (m, xs, ys, tok_list(e(v) for v in self.fvals(case, f)), tail,
                                                "".join(OPCH[o] for ff, o in self.aggs(case) if ff == f))
                for f in self.feats(case)]

    def parse_cell(self, w):
        if w == "none":
            return None
        a, b = w.split(":")
        return [int(a), int(b)]

    def decode(self, case, replies):
        d = self.dec(case)
        if any(r == "bad-request" for r in replies):
            raise ValueError("bad-request")
        if case["kind"] == "cell":
            geo, cells = None, []
            for r in replies:
                w = r.split(" ")
                g = [d(w[0]), d(w[1]), d(w[2]), d(w[3]), int(w[4]), int(w[5])]
                if geo is not None and g != geo:
                    raise ValueError("geometry differs between requests")
                geo = g
                cells.append(self.parse_cell(w[6]))
            return {"geo": geo, "cells": cells}
        if case["kind"] == "op":
            return {"res": [d(w) for w in untok(replies[0])], "after": [NAN if v == "nan" else v for v in case["vals"]]}
        if replies[0] == "err:raised":
            return {"err": "raised"}
        w = replies[0].split(" ")
        geo = [d(w[0]), d(w[1]), d(w[2]), d(w[3]), int(w[4]), int(w[5])]
        cells = [self.parse_cell(c) for c in untok(w[6])]
        grids = {}
        for f, r in zip(self.feats(case), replies):
            wf = r.split(" ")
            if wf[:7] != w[:7]:
                raise ValueError("geometry / cells differ between the per-feature requests")
            ops = [o for ff, o in self.aggs(case) if ff == f]
            for o, g in zip(ops, untok(wf[7], "|")):
                grids[f + "#" + o] = [[d(v) for v in untok(row)] for row in untok(g, ";")]
        out = {"geo": geo, "cells": cells, "grids": grids}
        if case.get("runs", 1) > 1:
            out["again"] = {"geo": geo, "cells": cells, "grids": grids}
        return out

    def compare(self, case, impl_out, model_out):
        if "err" in impl_out or "err" in model_out:
            if "err" in impl_out and "err" in model_out:
                return None
            return "impl=%s model=%s" % (str(impl_out)[:300], str(model_out)[:300])
        return Prop.compare(self, case, impl_out, model_out)

    # ---------------------------------------------------------------- oracle (transfer)
    def footprint(self, case, geo, x, y, cell):
        """None when (col, line) is a cell of the grid whose footprint contains (x, y)"""
        xmin, xmax, ymin, ymax, ncol, nrow = geo
        rx, ry = fr(case["res"][0]), fr(case["res"][1])
        if cell is None:
            return "no cell"
        c, l = cell
        if not (0 <= c < ncol and 0 <= l < nrow):
            return "cell (col %d, line %d) is outside the %d x %d grid" % (c, l, ncol, nrow)
        ex = 0 if case["mode"] == "q" else Fraction(1e-9) * max(rx, abs(fr(x)), 1)
        ey = 0 if case["mode"] == "q" else Fraction(1e-9) * max(ry, abs(fr(y)), 1)
        x0, x1 = fr(xmin) + c * rx, fr(xmin) + (c + 1) * rx
        y0, y1 = fr(ymin) + (nrow - 1 - l) * ry, fr(ymin) + (nrow - l) * ry
        X, Y = fr(x), fr(y)
        okx = x0 - ex <= X and (X < x1 + ex or (c == ncol - 1 and X <= x1 + ex))
        oky = y0 - ey <= Y and (Y < y1 + ey or (l == 0 and Y <= y1 + ey))
        if not okx:
            return "x = %s is not in column %d = [%s, %s)" % (x, c, float(x0), float(x1))
        if not oky:
            return "y = %s is not in line %d (from the top) = [%s, %s)" % (y, l, float(y0), float(y1))
        return None

    def agg(self, op, vals):
        """the aggregate over the non-NaN values, computed with the standard library"""
        v = [float(x) for x in vals if x != "nan" and not isnan(x)]
        if op == "co_count":
            return len(v)
        if op == "co_sum":
            return math.fsum(v) if v else 0
        if not v:
            return NO_DATA
        if op == "co_min":
            return min(v)
        if op == "co_max":
            return max(v)
        if op == "co_avg":
            return math.fsum(v) / len(v)
        if op == "co_median":
            return statistics.median(v)

    def spec(self, case, out):
        if "err" in out:
            return "raised %s (%s)" % (out["err"], out.get("detail"))
        if case["kind"] == "op":
            want_list = [NAN if v == "nan" else v for v in case["vals"]]
            for k, (o, got) in enumerate(zip(case["order"], out["res"])):
                want = self.agg(o, case["vals"])
                if want == NO_DATA and o not in ("co_count", "co_sum") and not any(v != "nan" for v in case["vals"]):
                    if not isnan(got):
                        return "call %d: %s(%s) = %r, NaN expected (no non-NaN value)" % (k, o, case["vals"], got)
                elif isnan(got) or not close(got, want, 1e-9):
                    return ("call %d of %s on the same list: %s(%s) = %r, expected %r"
                            % (k, case["order"], o, case["vals"], got, want))
            if not close(out["after"], want_list, 0.0, 0.0):
                return "the operators %s changed their argument: %s -> %s" % (case["order"], case["vals"], out["after"])
            return None
        m = self.spec_sum(case, out, "")
        if m is None and "again" in out:
            m = self.spec_sum(case, out["again"], "second summarize of the same collection: ")
        return m

    def spec_sum(self, case, out, prefix):
        m = self.spec_sum1(case, out)
        return None if m is None else prefix + m

    def spec_sum1(self, case, out):
        geo = out["geo"]
        xmin, xmax, ymin, ymax, ncol, nrow = geo
        if case["kind"] == "cell":
            for p, c in zip(case["pts"], out["cells"]):
                inside = fr(xmin) <= fr(p[0]) <= fr(xmax) and fr(ymin) <= fr(p[1]) <= fr(ymax)
                if not inside:
                    if c is not None:
                        return "point %s outside the grid extent is assigned the cell %s" % (p, c)
                    continue
                m = self.footprint(case, geo, p[0], p[1], c)
                if m:
                    return "getCell(%s) = %s: %s" % (p, c, m)
            return None
        obs = self.all_obs(case)
        if len(out["cells"]) != len(obs):
            return "cells for %d of %d observations" % (len(out["cells"]), len(obs))
        # the grid origin: bounding box of the observations enlarged by the relative margin
        xs, ys = [o[0] for o in obs], [o[1] for o in obs]
        mg = case["margin"]
        wx, wy = max(xs) - min(xs), max(ys) - min(ys)
        for name, got, want, w in (("xmin", xmin, min(xs) - mg * wx, wx), ("ymin", ymin, min(ys) - mg * wy, wy)):
            if abs(got - want) > 1e-9 * max(1.0, abs(want), w):
                return "grid origin %s = %r, expected %r" % (name, got, want)
        for o, c in zip(obs, out["cells"]):
            m = self.footprint(case, geo, o[0], o[1], c)
            if m:
                return "observation (%s, %s) assigned to %s: %s" % (o[0], o[1], c, m)
        grids = out["grids"]
        ag = self.aggs(case)
        if sorted(grids) != sorted(f + "#" + o for f, o in ag):
            return "maps %s for the requested aggregates %s" % (sorted(grids), ag)
        for name, g in grids.items():
            if len(g) != nrow or any(len(row) != ncol for row in g):
                return "grid %s is not %d x %d" % (name, nrow, ncol)
        # EVERY produced grid is checked against the values located in each cell, whatever else was computed in the same call
        for f in self.feats(case):
            members = {}
            for v, c in zip(self.fvals(case, f), out["cells"]):
                members.setdefault((c[1], c[0]), []).append(v)
            for ff, o in ag:
                if ff != f:
                    continue
                g = grids[f + "#" + o]
                if o == "co_count":
                    nn = sum(1 for v in self.fvals(case, f) if v != "nan")
                    tot = sum(sum(row) for row in g)
                    if tot != nn:
                        return ("the counts of %s#co_count sum to %s for %d %s (aggregates of this call, in order: %s)"
                                % (f, tot, nn, "observations" if f == "uid" else "non-NaN values", ag))
                for l in range(nrow):
                    for c in range(ncol):
                        vals = members.get((l, c), [])
                        want = self.agg(o, vals)
                        got = g[l][c]
                        if isnan(got) or not close(got, want, 1e-9):
                            return ("%s#%s[line %d][col %d] = %r, the values located there %s give %r (aggregates of this call, in order: %s)"
                                    % (f, o, l, c, got, vals, want, ag))
        return None

    # ---------------------------------------------------------------- shrinking / search
    def shrink(self, case):
        if case["kind"] == "cell":
            if len(case["pts"]) > 1:
                for i in range(len(case["pts"])):
                    yield dict(case, pts=[case["pts"][i]])
            return
        if case["kind"] == "op":
            if len(case["order"]) > 1:
                for i in range(len(case["order"])):
                    yield dict(case, order=case["order"][:i] + case["order"][i + 1:])
            for i in range(len(case["vals"])):
                yield dict(case, vals=case["vals"][:i] + case["vals"][i + 1:])
            return
        if case.get("runs", 1) > 1:
            yield dict(case, runs=1)
        ag = self.aggs(case)
        if len(ag) > 1:
            for i in range(len(ag)):
                yield dict(case, aggs=ag[:i] + ag[i + 1:])
        tr = case["tracks"]
        if len(tr) > 1:
            for i in range(len(tr)):
                yield dict(case, tracks=tr[:i] + tr[i + 1:])
        for i in range(len(tr)):
            if len(tr[i]) > 1:
                for k in range(len(tr[i])):
                    yield dict(case, tracks=tr[:i] + [tr[i][:k] + tr[i][k + 1:]] + tr[i + 1:])
        if case["margin"] != 0:
            yield dict(case, margin=0)

    def mutate(self, case, rng):
        for _ in range(20):
            yield self.lattice(rng, "q")


# ---- tie to the source by translation (tools/py2lean.py -> lean/TracklibVerif/Gen/Raster.lean, regenerated on every run)
P.tie_modules = ["TracklibVerif.Tie.C19"]
P.theorems = P.theorems + [
    ("TracklibVerif.Tie.C19", "TV.Tie.C19.tie_getCell", "the Lean translation of the CURRENT source of Raster.getCell equals the model's getCell on all arguments (resolution != 0; int() = floor on integral floats; the scalar's == is Python's ==)"),
]
