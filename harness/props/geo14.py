"""Independent oracle of the C14 check: textbook WGS84 geodesy (a, f), nothing taken from tracklib.
Shared by harness/props/c14.py (point, Lambert and whole-track cases) and harness/props/c14hist.py (histories)."""
import math

# ------------------------------------------------------------------------------------------
# independent oracle: textbook WGS84 (a, f), nothing taken from tracklib
# ------------------------------------------------------------------------------------------
A = 6378137.0
F = 1.0 / 298.257223563
E2 = F * (2.0 - F)

TOL_DEG = 1e-9      # the property's bounds
TOL_M = 1e-3


def o_g2e(g):
    """geodetic (deg, deg, m) -> ECEF, closed-form WGS84"""
    lon, lat, h = math.radians(g[0]), math.radians(g[1]), g[2]
    s, c = math.sin(lat), math.cos(lat)
    N = A / math.sqrt(1.0 - E2 * s * s)
    return [(N + h) * c * math.cos(lon), (N + h) * c * math.sin(lon), (N * (1.0 - E2) + h) * s]


def o_e2g(p):
    """ECEF -> geodetic by the classical latitude iteration run to convergence (not Bowring's closed form)"""
    X, Y, Z = p
    lon = math.atan2(Y, X)
    r = math.hypot(X, Y)
    lat = math.atan2(Z, r * (1.0 - E2))
    h = 0.0
    for _ in range(30):
        s = math.sin(lat)
        N = A / math.sqrt(1.0 - E2 * s * s)
        # numerically stable height whatever the latitude
        h = r * math.cos(lat) + Z * s - A * A / N
        new = math.atan2(Z, r * (1.0 - E2 * N / (N + h)))
        if abs(new - lat) < 1e-17:
            lat = new
            break
        lat = new
    return [math.degrees(lon), math.degrees(lat), h]


def dlon(a, b):
    d = (a - b) % 360.0
    return min(d, 360.0 - d)


def geo_diff(a, b):
    """None if two geodetic positions agree within the property's bounds, else text"""
    if not all(math.isfinite(v) for v in a):
        return "non-finite %s" % (a,)
    if dlon(a[0], b[0]) > TOL_DEG or abs(a[1] - b[1]) > TOL_DEG:
        return "angles differ by (%.3g, %.3g) deg" % (dlon(a[0], b[0]), abs(a[1] - b[1]))
    if abs(a[2] - b[2]) > TOL_M:
        return "height differs by %.3g m" % abs(a[2] - b[2])
    return None


def m_diff(a, b):
    if not all(math.isfinite(v) for v in a):
        return "non-finite %s" % (a,)
    d = math.sqrt(sum((x - y) ** 2 for x, y in zip(a, b)))
    return None if d <= TOL_M else "differs by %.3g m" % d


def base_geo(b):
    """true geodetic position of a base token ["G"|"E", x, y, z]"""
    return list(b[1:]) if b[0] == "G" else o_e2g(b[1:])


def close_geo(a, b):   # correspondence tolerance (model vs implementation)
    return all(_c(x, y, 1e-10) for x, y in zip(a[:2], b[:2])) and _cm(a[2], b[2])


def _c(x, y, tol):
    if x != x or y != y:
        return x != x and y != y
    if math.isinf(x) or math.isinf(y):
        return x == y
    return abs(x - y) <= tol


def _cm(x, y):
    if x != x or y != y:
        return x != x and y != y
    if math.isinf(x) or math.isinf(y):
        return x == y
    return abs(x - y) <= 1e-9 * max(1.0, abs(x), abs(y))


def close_m(a, b):
    return all(_cm(x, y) for x, y in zip(a, b))


def base_frame(b):
    """origin (ECEF) and geodetic longitude/latitude (radians) of a base given as ("G"|"E", [x, y, z])"""
    kind, v = b
    if kind == "G":
        return o_g2e(v), math.radians(v[0]), math.radians(v[1])
    g = o_e2g(v)
    return list(v), math.radians(g[0]), math.radians(g[1])


def o_enu(P, b):
    """ECEF position -> local east-north-up coordinates about the base b"""
    O, lon, lat = base_frame(b)
    x, y, z = P[0] - O[0], P[1] - O[1], P[2] - O[2]
    sl, cl, sp, cp = math.sin(lon), math.cos(lon), math.sin(lat), math.cos(lat)
    return [-sl * x + cl * y,
            -sp * cl * x - sp * sl * y + cp * z,
            cp * cl * x + cp * sl * y + sp * z]


def o_unenu(q, b):
    """local east-north-up coordinates about the base b -> ECEF position (transposed rotation)"""
    O, lon, lat = base_frame(b)
    e, n, u = q
    sl, cl, sp, cp = math.sin(lon), math.cos(lon), math.sin(lat), math.cos(lat)
    return [O[0] - sl * e - sp * cl * n + cp * cl * u,
            O[1] + cl * e - sp * sl * n + cp * sl * u,
            O[2] + cp * n + sp * u]
