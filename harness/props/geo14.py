"""Independent oracle of the C14 check: textbook WGS84 geodesy (a, f), nothing taken from tracklib.
Shared by harness/props/c14.py (point, Lambert and whole-track cases) and harness/props/c14hist.py (histories)."""
import math

# ------------------------------------------------------------------------------------------
# independent oracle: textbook WGS84 (a, f), nothing taken from tracklib
# ------------------------------------------------------------------------------------------
A = 6378137.0
F = 1.0 / 298.257223563
E2 = F * (2.0 - F)

TOL_DEG = 1e-9      # the property's bounds
TOL_M = 1e-3


def o_g2e(g):
    """geodetic (deg, deg, m) -> ECEF, closed-form WGS84"""
    lon, lat, h = math.radians(g[0]), math.radians(g[1]), g[2]
    s, c = math.sin(lat), math.cos(lat)
    N = A / math.sqrt(1.0 - E2 * s * s)
    return [(N + h) * c * math.cos(lon), (N + h) * c * math.sin(lon), (N * (1.0 - E2) + h) * s]


def o_e2g(p):
    """ECEF -> geodetic by the classical latitude iteration run to convergence (not Bowring's closed form)"""
    X, Y, Z = p
    lon = math.atan2(Y, X)
    r = math.hypot(X, Y)
    lat = math.atan2(Z, r * (1.0 - E2))
    h = 0.0
    for _ in range(30):
        s = math.sin(lat)
        N = A / math.sqrt(1.0 - E2 * s * s)
        # numerically stable height whatever the latitude
        h = r * math.cos(lat) + Z * s - A * A / N
        new = math.atan2(Z, r * (1.0 - E2 * N / (N + h)))
        if abs(new - lat) < 1e-17:
            lat = new
            break
        lat = new
    return [math.degrees(lon), math.degrees(lat), h]


def dlon(a, b):
    d = (a - b) % 360.0
    return min(d, 360.0 - d)


def geo_diff(a, b):
    """None if two geodetic positions agree within the property's bounds, else text"""
    if not all(math.isfinite(v) for v in a):
        return "non-finite %s" % (a,)
    if dlon(a[0], b[0]) > TOL_DEG or abs(a[1] - b[1]) > TOL_DEG:
        return "angles differ by (%.3g, %.3g) deg" % (dlon(a[0], b[0]), abs(a[1] - b[1]))
    if abs(a[2] - b[2]) > TOL_M:
        return "height differs by %.3g m" % abs(a[2] - b[2])
    return None


def m_diff(a, b):
    if not all(math.isfinite(v) for v in a):
        return "non-finite %s" % (a,)
    d = math.sqrt(sum((x - y) ** 2 for x, y in zip(a, b)))
    return None if d <= TOL_M else "differs by %.3g m" % d


def base_geo(b):
    """true geodetic position of a base token ["G"|"E", x, y, z]"""
    return list(b[1:]) if b[0] == "G" else o_e2g(b[1:])


def close_geo(a, b):   # correspondence tolerance (model vs implementation)
    return all(_c(x, y, 1e-10) for x, y in zip(a[:2], b[:2])) and _cm(a[2], b[2])


def _c(x, y, tol):
    if x != x or y != y:
        return x != x and y != y
    if math.isinf(x) or math.isinf(y):
        return x == y
    return abs(x - y) <= tol


def _cm(x, y):
    if x != x or y != y:
        return x != x and y != y
    if math.isinf(x) or math.isinf(y):
        return x == y
    return abs(x - y) <= 1e-9 * max(1.0, abs(x), abs(y))


def close_m(a, b):
    return all(_cm(x, y) for x, y in zip(a, b))


def close_m_frac(a, b):
    """correspondence tolerance for metres when coordinates are fractions.Fraction: 1e-7 m absolute (1e-9 relative above 100 m).
    Python then computes X*X + Y*Y, X - base.X, -x ... exactly where the model (which takes float(v)) rounds each step, so
    intermediate quantities of Earth-radius size differ in their last bit (1e-9 m) and small local coordinates inherit that
    absolute difference. Ten thousand times below the property's millimetre; the oracle's bounds are not concerned."""
    return all(_cm(x, y) or (math.isfinite(x) and math.isfinite(y) and abs(x - y) <= 1e-7) for x, y in zip(a, b))


def close_geo_frac(a, b):
    """as close_geo, with the longitude compared modulo 360 degrees (a last-bit difference of a Y next to 0 on the
    antimeridian turns -180 into 180: the same meridian) and the height as in close_m_frac"""
    lon = _c(a[0], b[0], 1e-10) or (math.isfinite(a[0]) and math.isfinite(b[0]) and dlon(a[0], b[0]) <= 1e-10)
    return lon and _c(a[1], b[1], 1e-10) and close_m_frac(a[2:3], b[2:3])


def corr_close_geo(case):
    return close_geo_frac if "frac" in (case.get("ty") or ()) else close_geo


def corr_close_m(case):
    return close_m_frac if "frac" in (case.get("ty") or ()) else close_m


def base_frame(b):
    """origin (ECEF) and geodetic longitude/latitude (radians) of a base given as ("G"|"E", [x, y, z])"""
    kind, v = b
    if kind == "G":
        return o_g2e(v), math.radians(v[0]), math.radians(v[1])
    g = o_e2g(v)
    return list(v), math.radians(g[0]), math.radians(g[1])


def o_enu(P, b):
    """ECEF position -> local east-north-up coordinates about the base b"""
    O, lon, lat = base_frame(b)
    x, y, z = P[0] - O[0], P[1] - O[1], P[2] - O[2]
    sl, cl, sp, cp = math.sin(lon), math.cos(lon), math.sin(lat), math.cos(lat)
    return [-sl * x + cl * y,
            -sp * cl * x - sp * sl * y + cp * z,
            cp * cl * x + cp * sl * y + sp * z]


def o_unenu(q, b):
    """local east-north-up coordinates about the base b -> ECEF position (transposed rotation)"""
    O, lon, lat = base_frame(b)
    e, n, u = q
    sl, cl, sp, cp = math.sin(lon), math.cos(lon), math.sin(lat), math.cos(lat)
    return [O[0] - sl * e - sp * cl * n + cp * cl * u,
            O[1] + cl * e - sp * sl * n + cp * sl * u,
            O[2] + cp * n + sp * u]


# ------------------------------------------------------------------------------------------
# number types of the coordinates handed to the library
# ------------------------------------------------------------------------------------------
# A case may carry "ty": [t0, t1, t2]: the Python type in which coordinate slot 0 / 1 / 2 (lon lat hgt, E N U, X Y Z)
# of EVERY coordinate object of the case (points, bases, positions of tracks, values written by in-place updates) is
# handed to the library, whenever the value of the slot is exactly representable in that type; otherwise (and without
# "ty") the value is passed as the Python float it is in the case.  The case itself always holds floats: the position
# a coordinate object denotes does not depend on the type of the numbers (a height typed 120 is 120 m), so the
# oracle and the Lean model (which takes float(v)) never look at "ty".
#   "f" float | "int" Python int | "bool" True/False (values 0, 1) | "i64" numpy.int64 | "f64" numpy.float64
#   | "frac" fractions.Fraction (every finite double is one)
# Not in the class: numpy.float32 / numpy.int32 and narrower. Under NumPy >= 2 promotion (Python floats are "weak")
# float32 coordinates make the library compute in float32 (0.3 m in ECEF) and int32 ECEF coordinates overflow in X*X:
# the precision of the result is that of the caller's type, a statement about the property cannot be made there.
NUM_TYPES = ("f", "int", "bool", "i64", "f64", "frac")
INT_LIKE = ("int", "bool", "i64")


def wrap_num(v, t):
    """the float v as a number of type t (when exactly representable), else v itself"""
    if t == "f" or t is None or not isinstance(v, float) or not math.isfinite(v):
        return v
    if t == "f64":
        import numpy
        return numpy.float64(v)
    if t == "frac":
        from fractions import Fraction
        return Fraction(v)
    if v != math.floor(v) or abs(v) >= 2.0 ** 31:
        return v
    if t == "bool" and v in (0.0, 1.0):
        return bool(v)
    if t == "i64":
        import numpy
        return numpy.int64(int(v))
    return int(v)           # "int", and "bool" for an integral value other than 0 / 1


def wrap3(vals, ty):
    """the three coordinates of one object in the types of the case"""
    if not ty:
        return list(vals)
    return [wrap_num(v, t) for v, t in zip(vals, ty)]


def rand_ty(rng):
    """a type assignment for the three coordinate slots, never all-float"""
    r = rng.random()
    if r < 0.35:
        ty = ["f", "f", rng.choice(["int", "int", "int", "i64", "frac", "bool"])]     # heights typed by hand, integer altitude columns
    elif r < 0.70:
        t = rng.choice(["int", "int", "i64", "frac", "f64"])
        ty = [t, t, t]
    else:
        ty = [rng.choice(NUM_TYPES) for _ in range(3)]
    if all(t == "f" for t in ty):
        ty[rng.randrange(3)] = "int"
    return ty


def fit3(cls, v, ty, rng=None):
    """the value of an object of class cls ("G" | "E" | "N") moved (by less than a degree / a metre) so that the int-like slots of
    ty apply: integral longitudes, latitudes (towards the equator), heights / metres; 0 or 1 for "bool". Deterministic for rng=None
    (equal values stay equal)."""
    out = list(v)
    for c, t in enumerate(ty):
        if t not in INT_LIKE or not math.isfinite(out[c]):
            continue
        if t == "bool" and cls != "E" and rng is not None and rng.random() < 0.7:      # (an ECEF position of 0s and 1s is the centre of the Earth)
            out[c] = float(rng.random() < 0.5)
        elif cls == "G" and c == 1:
            out[c] = float(math.trunc(out[c]))
        else:
            out[c] = float(round(out[c]))
        out[c] = out[c] + 0.0          # no -0.0
    return out
