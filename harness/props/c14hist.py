"""C14, histories: sequences of conversions on *shared, mutable* coordinate objects.

A case {"kind": "hist", "ops": [...]} is a small program run on the real classes (and on the heap model
`lean/TracklibVerif/Model/GeoHeap.lean`):

  ["new", name, K, [x, y, z]]        name = GeoCoords / ENUCoords / ECEFCoords (K = "G" | "N" | "E")
  ["set", ref, c, x, how]            in-place update of coordinate c (0, 1, 2) of an object: how = "setter" (setX/setY/setZ)
                                     or "attr" (assignment to lon/lat/hgt, E/N/U, X/Y/Z)
  ["call", name, ref, M, [val…]]     name = ref.to<M>Coords(*vals)          M = "ECEF" | "ENU" | "GEO" | "PROJ"
  ["mk", [ref…], val]                a Track whose observations hold these very objects, Track(base=val) (tracks are numbered 0, 1, …)
  ["tc", k, M, val]                  track k .to<M>Coords(val)
  ["tif", k, name]                   name = track k .toENUCoordsIfNeeded()   (the returned base, a new object; name may be None)
  val = None | ["S", n] (an int) | ref;     ref = ["o", name] | ["tp", k, i] (the object that is now position i of track k)
                                                  | ["tb", k] (what Track.base of track k is now)

Observed after every op: which objects exist (every object reachable from a name or a track, numbered in order of first
appearance), the values of the new ones, which *older* objects changed, and for a track op the references held by the track.
A raising op ends the history.

The oracle (`spec`) never calls tracklib: it follows the values the objects hold (from the case for new/set, from the
observed results for conversions) and requires, of every conversion the property is about (point level and whole track):
  V  the result is the closed-form WGS84 / east-north-up result computed from the values the point and the base hold
     *at the time of the call* (1 mm in space; this is what catches state kept from earlier calls);
  R  a result that closes a round trip (same point, same base *values*, whichever objects carry them) returns the original
     position to 1e-9 degree / 1 mm (the property's own bound);
  F  no conversion changes an object that existed before it (its argument, its base, anything else);
  B  a whole-track conversion to ENU records the base it used: Track.base holds the geographic position of the base at the
     time of the call, and still does after the caller updates his base object (checked through the next conversion that
     relies on the recorded base). When the call leaves the choice of the base to the library (toENUCoords() without
     argument, toENUCoordsIfNeeded()) the property does not say which point that is: the oracle takes the base on record
     after the call (a GeoCoords of the property's domain) as the base used and applies V and R with it — the new local
     coordinates must be those about the recorded base, and the return through the record must give the positions back;
     what toENUCoordsIfNeeded() returns must denote the recorded base.
Refused calls (wrong class / number of arguments / SRID) are outside the property: the oracle stops there (their error
kind is compared with the model's)."""
import math
from engine import fbits, bitsf, err_kind
from props.geo14 import (TOL_DEG, TOL_M, o_g2e, o_e2g, geo_diff, m_diff, close_geo, close_m, o_enu, o_unenu, wrap3, wrap_num, fit3, corr_close_m, corr_close_geo)

METH = {"ENU": "toENUCoords", "GEO": "toGeoCoords", "ECEF": "toECEFCoords", "PROJ": "toProjCoords"}
ATTRS = {"G": ("lon", "lat", "hgt"), "N": ("E", "N", "U"), "E": ("X", "Y", "Z")}


# ------------------------------------------------------------------------------------------------------
# static pass: classes only (used for validity of a case, by the generator and by the shrinker)
# ------------------------------------------------------------------------------------------------------
def conv_kind(k, m, args):
    """class of obj.to<m>Coords(*args) for an object of class k and argument classes args
    (each "G" | "N" | "E" | "int" | "none"), or None when Python raises"""
    pt = lambda a: a in ("G", "E")
    if k == "G":
        if m in ("ECEF", "GEO") and not args:
            return "E" if m == "ECEF" else "G"
        if m == "ENU" and len(args) == 1 and (pt(args[0]) or args[0] == "int"):
            return "N"            # an int other than 2154 is refused at run time
        if m == "PROJ" and len(args) == 1 and args[0] == "int":
            return "N"
    elif k == "N":
        if m == "ECEF" and len(args) == 1 and pt(args[0]):
            return "E"
        if m == "GEO" and len(args) == 1 and (pt(args[0]) or args[0] == "int"):
            return "G"
        if m == "ENU" and len(args) == 2 and pt(args[0]) and pt(args[1]):
            return "N"
    elif k == "E":
        if m in ("ECEF", "GEO") and not args:
            return "E" if m == "ECEF" else "G"
        if m == "ENU" and len(args) == 1 and pt(args[0]):
            return "N"
    return None


class Static:
    """classes of the named objects and of the tracks after a prefix of ops; `ok` False = the case is not well formed
    (a reference that designates nothing), `dead` True = an op was refused: the history has ended"""

    def __init__(self):
        self.objs = {}      # name -> class
        self.tracks = []    # {"kinds": [class per position], "base": "none" | "int" | "G" | "N" | "E", "srid": n | None}
        self.ok = True
        self.dead = False

    def val_kind(self, v):
        if v is None:
            return "none"
        if v[0] == "S":
            return "int"
        if v[0] == "o":
            if v[1] not in self.objs:
                self.ok = False
                return None
            return self.objs[v[1]]
        if v[0] in ("tp", "tb"):
            if not (isinstance(v[1], int) and 0 <= v[1] < len(self.tracks)):
                self.ok = False
                return None
            t = self.tracks[v[1]]
            if v[0] == "tb":
                return t["base"]
            if not (isinstance(v[2], int) and 0 <= v[2] < len(t["kinds"])):
                self.ok = False
                return None
            return t["kinds"][v[2]]
        self.ok = False
        return None

    def ref_kind(self, r):
        k = self.val_kind(r)
        if k not in ("G", "N", "E"):
            self.ok = False
            return None
        return k

    def step(self, op):
        if self.dead or not self.ok:
            return
        if op[0] == "new":
            self.objs[op[1]] = op[2]
        elif op[0] == "set":
            self.ref_kind(op[1])
        elif op[0] == "call":
            k = self.ref_kind(op[2])
            a = [self.val_kind(v) for v in op[4]]
            if not self.ok:
                return
            r = conv_kind(k, op[3], a)
            if r is None:
                self.dead = True
            else:
                self.objs[op[1]] = r
        elif op[0] == "mk":
            ks = [self.ref_kind(r) for r in op[1]]
            b = self.val_kind(op[2])
            if self.ok:
                self.tracks.append({"kinds": ks, "base": b})
        elif op[0] == "tc":
            if not (isinstance(op[1], int) and 0 <= op[1] < len(self.tracks)):
                self.ok = False
                return
            t = self.tracks[op[1]]
            a = self.val_kind(op[3])
            if not self.ok:
                return
            if not t["kinds"]:
                self.dead = True
                return
            k0, m = t["kinds"][0], op[2]
            args = None
            nb = t["base"]
            if m == "ECEF":
                if k0 == "G":
                    args = []
                elif k0 == "N":
                    b = t["base"] if a == "none" else a
                    args = [b] if b != "none" else None
                else:
                    return
            elif m == "GEO":
                if k0 == "E":
                    args = []
                elif k0 == "N":
                    b = t["base"] if a == "none" else a
                    args = [b] if b != "none" else None
                else:
                    return
            elif m == "ENU":
                if k0 == "N":
                    args = [t["base"], a] if (a != "none" and t["base"] != "none") else None
                    nb = "G"
                else:
                    b = k0 if a == "none" else a
                    args = [b]
                    nb = "int" if b == "int" else "G"
            elif m == "PROJ":
                if k0 == "G" and a == "int":
                    args = ["int"]
                    nb = "int"
            if args is None:
                self.dead = True
                return
            ks = [conv_kind(k, m, args) for k in t["kinds"]]
            if any(k is None for k in ks) or (m == "ENU" and nb == "G" and args[-1] not in ("G", "E")):
                self.dead = True
                return
            t["kinds"], t["base"] = ks, nb
        elif op[0] == "tif":
            if not (isinstance(op[1], int) and 0 <= op[1] < len(self.tracks)):
                self.ok = False
                return
            t = self.tracks[op[1]]
            if not t["kinds"]:
                self.dead = True
                return
            if t["kinds"][0] == "G":
                ks = [conv_kind(k, "ENU", ["G"]) for k in t["kinds"]]
                if any(k is None for k in ks):
                    self.dead = True
                    return
                t["kinds"], t["base"] = ks, "G"
                if op[2] is not None:
                    self.objs[op[2]] = "G"
        else:
            self.ok = False


def static(case, upto=None):
    s = Static()
    for op in case["ops"][:upto]:
        s.step(op)
    return s


def valid(case):
    try:
        s = Static()
        for i, op in enumerate(case["ops"]):
            if s.dead:
                return False          # ops after a refused one are never run: not a canonical case
            s.step(op)
            if not s.ok:
                return False
        return True
    except Exception:
        return False


# ------------------------------------------------------------------------------------------------------
# the real code
# ------------------------------------------------------------------------------------------------------
class Runner:
    def __init__(self, oc, Obs, Track, ObsTime, ty=None):
        """ty: number types of the coordinate slots (geo14.py), applied to the values of new and set ops"""
        self.oc, self.Obs, self.Track, self.ObsTime = oc, Obs, Track, ObsTime
        self.ty = ty
        self.kinds = {oc.GeoCoords: "G", oc.ENUCoords: "N", oc.ECEFCoords: "E"}
        self.cls = {"G": oc.GeoCoords, "N": oc.ENUCoords, "E": oc.ECEFCoords}

    def kind(self, o):
        return self.kinds.get(type(o), "?")

    def value(self, o):
        k = self.kind(o)
        if k == "?":
            return ["?", 0.0, 0.0, 0.0]
        return [k] + [float(getattr(o, a)) for a in ATTRS[k]]

    def run(self, case):
        pool, index = [], {}          # every object seen so far (kept alive: ids are never reused), id -> number
        named, tracks = {}, []

        def see(o):
            if id(o) not in index:
                index[id(o)] = len(pool)
                pool.append(o)
            return index[id(o)]

        def val(v):
            if v is None:
                return None
            if v[0] == "S":
                return int(v[1])
            if v[0] == "o":
                return named[v[1]]
            if v[0] == "tp":
                return tracks[v[1]].getObs(v[2]).position
            if v[0] == "tb":
                return tracks[v[1]].base
            raise ValueError(v)

        def trk(t):
            pts = [see(t.getObs(i).position) for i in range(t.size())]
            b = t.base
            if b is None:
                base = None
            elif isinstance(b, int):
                base = ["S", b]
            else:
                base = ["R", see(b)]
            return [pts, base]

        steps, err = [], None
        for op in case["ops"]:
            before = [self.value(o) for o in pool]
            n0 = len(pool)
            res, tk = None, None
            try:
                if op[0] == "new":
                    o = self.cls[op[2]](*wrap3(op[3], self.ty))
                    named[op[1]] = o
                    res = see(o)
                elif op[0] == "set":
                    o = val(op[1])
                    x = wrap_num(op[3], self.ty[op[2]]) if self.ty else op[3]
                    if op[4] == "setter":
                        getattr(o, ("setX", "setY", "setZ")[op[2]])(x)
                    else:
                        setattr(o, ATTRS[self.kind(o)][op[2]], x)
                elif op[0] == "call":
                    o = val(op[2])
                    r = getattr(o, METH[op[3]])(*[val(v) for v in op[4]])
                    named[op[1]] = r
                    res = see(r)
                elif op[0] == "mk":
                    t = self.Track([self.Obs(val(r), self.ObsTime()) for r in op[1]], base=val(op[2]))
                    tracks.append(t)
                    tk = trk(t)
                elif op[0] == "tc":
                    t = tracks[op[1]]
                    if op[2] == "PROJ":
                        t.toProjCoords(val(op[3]))
                    else:
                        getattr(t, METH[op[2]])(val(op[3]))
                    tk = trk(t)
                elif op[0] == "tif":
                    t = tracks[op[1]]
                    r = t.toENUCoordsIfNeeded()
                    res = None if r is None else see(r)
                    if r is not None and op[2] is not None:
                        named[op[2]] = r
                    tk = trk(t)
                else:
                    raise ValueError(op)
            except BaseException as e:
                if isinstance(e, KeyboardInterrupt):
                    raise
                err = err_kind(e)
                break
            after = [self.value(o) for o in pool]
            changed = [[i] + after[i][1:] for i in range(n0)
                       if before[i][0] != after[i][0] or [fbits(x) for x in before[i][1:]] != [fbits(x) for x in after[i][1:]]]
            steps.append({"res": res, "new": after[n0:], "changed": changed, "trk": tk})
        return {"steps": steps, "err": err}


# ------------------------------------------------------------------------------------------------------
# the model (driver protocol)
# ------------------------------------------------------------------------------------------------------
def request(case):
    ordinal = {}

    def val(v):
        if v is None:
            return "_"
        if v[0] == "S":
            return "S%d" % v[1]
        if v[0] == "o":
            return "o%d" % ordinal[v[1]]
        if v[0] == "tp":
            return "t%dp%d" % (v[1], v[2])
        if v[0] == "tb":
            return "t%db" % v[1]
        raise ValueError(v)

    toks = []
    cnt = 0          # objects created by new/call ops so far (a name may be bound again: the latest binding counts)
    for op in case["ops"]:
        if op[0] == "new":
            toks.append("new:%s:%s" % (op[2], ",".join(fbits(x) for x in op[3])))
            ordinal[op[1]] = cnt
            cnt += 1
        elif op[0] == "set":
            toks.append("set:%s:%d:%s" % (val(op[1]), op[2], fbits(op[3])))
        elif op[0] == "call":
            toks.append("call:%s:%s:%s" % (val(op[2]), op[3], "/".join(val(v) for v in op[4]) or "-"))
            ordinal[op[1]] = cnt
            cnt += 1
        elif op[0] == "mk":
            toks.append("mk:%s:%s" % ("/".join(val(r) for r in op[1]) or "-", val(op[2])))
        elif op[0] == "tc":
            toks.append("tc:%d:%s:%s" % (op[1], op[2], val(op[3])))
        elif op[0] == "tif":
            toks.append("tif:%d" % op[1])
            if op[2] is not None:
                ordinal[op[2]] = cnt
            cnt += 1
    return "C14.hist " + " ".join(toks)


def decode(reply):
    steps, err = [], None
    for tok in reply.split():
        if tok.startswith("err:"):
            err = tok
            break
        r, nw, ch, tk = tok.split("|")
        new = [] if nw == "_" else [[o.split(",")[0]] + [bitsf(t) for t in o.split(",")[1:]] for o in nw.split(";")]
        changed = [] if ch == "_" else [[int(o.split(",")[0])] + [bitsf(t) for t in o.split(",")[1:]] for o in ch.split(";")]
        trk = None
        if tk != "_":
            p, b = tk.split("~")
            pts = [] if p == "-" else [int(x) for x in p.split(",")]
            if b == "_":
                base = None
            else:
                bb = b.split(",")
                base = [bb[0], int(bb[1])]
            trk = [pts, base]
        steps.append({"res": None if r == "_" else int(r), "new": new, "changed": changed, "trk": trk})
    return {"steps": steps, "err": err}


def compare(case, a, b):
    close_m, close_geo = corr_close_m(case), corr_close_geo(case)
    if a["err"] != b["err"]:
        return "error: impl=%s model=%s (after %d / %d completed ops)" % (a["err"], b["err"], len(a["steps"]), len(b["steps"]))
    if len(a["steps"]) != len(b["steps"]):
        return "number of completed operations: impl=%d model=%d" % (len(a["steps"]), len(b["steps"]))
    for j, (x, y) in enumerate(zip(a["steps"], b["steps"])):
        op = case["ops"][j]
        if x["res"] != y["res"]:
            return "op %d %r: result is object %r in the implementation, %r in the model (aliasing differs)" % (j, op, x["res"], y["res"])
        if len(x["new"]) != len(y["new"]):
            return "op %d %r: %d new objects in the implementation, %d in the model" % (j, op, len(x["new"]), len(y["new"]))
        for p, q in zip(x["new"], y["new"]):
            if p[0] != q[0] or not (close_geo if p[0] == "G" else close_m)(p[1:], q[1:]):
                return "op %d %r: new object impl=%r model=%r" % (j, op, p, q)
        if [c[0] for c in x["changed"]] != [c[0] for c in y["changed"]]:
            return "op %d %r: objects updated in place impl=%r model=%r" % (j, op, x["changed"], y["changed"])
        for p, q in zip(x["changed"], y["changed"]):
            if not close_m(p[1:], q[1:]):
                return "op %d %r: object updated in place impl=%r model=%r" % (j, op, p, q)
        if x["trk"] != y["trk"]:
            return "op %d %r: the track holds impl=%r model=%r (objects numbered in order of appearance)" % (j, op, x["trk"], y["trk"])
    return None


# ------------------------------------------------------------------------------------------------------
# the oracle
# ------------------------------------------------------------------------------------------------------
def bkey(kind, v):
    return (kind,) + tuple(fbits(x) for x in v)


def in_domain(kind, v):
    """is a GeoCoords/ECEFCoords value a position of the property's domain (|lat| <= 89.9, -1 km <= h <= 10 km)?"""
    if not all(math.isfinite(x) for x in v):
        return False
    try:
        g = v if kind == "G" else o_e2g(v)
    except ArithmeticError:
        return False             # e.g. an ECEF object half way through an update, at the centre of the Earth
    return abs(g[0]) <= 180.0 and abs(g[1]) <= 89.9 and -1000.5 <= g[2] <= 10000.5


class Know:
    """what the oracle knows about the point an object denotes: geographic / ECEF position it was derived from through
    conversions that must round-trip, and its local coordinates in the frames (keyed by the *value* of the base) it was seen in"""
    __slots__ = ("geo", "ecef", "enu", "frame")

    def __init__(self, geo=None, ecef=None, enu=None, frame=None):
        self.geo, self.ecef, self.enu, self.frame = geo, ecef, dict(enu or {}), frame

    def copy(self):
        return Know(self.geo, self.ecef, self.enu, self.frame)


def root(kind, v):
    try:
        if kind == "G":
            return Know(list(v), o_g2e(v))
        if kind == "E":
            return Know(o_e2g(v), list(v))
    except ArithmeticError:
        pass                     # not a position (an object half way through an update): nothing is known, see in_domain
    return Know()


def opname(op):
    def sv(v):
        if v is None:
            return "None"
        if v[0] == "S":
            return str(v[1])
        if v[0] == "o":
            return v[1]
        if v[0] == "tp":
            return "track%d[%d].position" % (v[1], v[2])
        return "track%d.base" % v[1]
    if op[0] == "call":
        return "%s = %s.%s(%s)" % (op[1], sv(op[2]), METH[op[3]], ", ".join(sv(v) for v in op[4]))
    if op[0] == "tc":
        return "track%d.%s(%s)" % (op[1], METH[op[2]], sv(op[3]))
    if op[0] == "tif":
        return "track%d.toENUCoordsIfNeeded()" % op[1]
    return str(op)


class Oracle:
    def __init__(self):
        self.vals = []       # [class, [x, y, z]] of every object, current
        self.know = []       # Know per object
        self.named = {}
        self.tracks = []     # {"pts": [object numbers], "base": ("none",) | ("S", n) | ("R", number) | ("V", class, value)}

    # ---- references
    def val(self, v):
        """-> ("none",) | ("S", n) | ("R", number) | ("V", class, value)"""
        if v is None:
            return ("none",)
        if v[0] == "S":
            return ("S", v[1])
        if v[0] == "o":
            return ("R", self.named[v[1]])
        if v[0] == "tp":
            return ("R", self.tracks[v[1]]["pts"][v[2]])
        return self.tracks[v[1]]["base"]

    def pt(self, b):
        """(class, value) of a base designated by b, or None when it is not a coordinate object"""
        if b[0] == "R":
            return (self.vals[b[1]][0], list(self.vals[b[1]][1]))
        if b[0] == "V":
            return (b[1], list(b[2]))
        return None

    # ---- one conversion of one object
    def convert(self, k, v, kn, m, bases):
        """expected class, closed-form expectation, knowledge of the result — or None when the call is refused / outside
        the property. bases: list of ("S", n) | (class, value)"""
        pb = lambda b: b[0] in ("G", "E")
        if (k in ("G", "E") and not in_domain(k, v)) or any(pb(b) and not in_domain(*b) for b in bases):
            return None          # a position or a base outside the property's domain
        if k in ("G", "E") and m in ("GEO", "ECEF") and not bases:
            rk = "G" if m == "GEO" else "E"
            P = o_g2e(v) if k == "G" else list(v)
            return rk, ("P", P), kn.copy()
        if k in ("G", "E") and m == "ENU" and len(bases) == 1 and pb(bases[0]):
            P = o_g2e(v) if k == "G" else list(v)
            K = kn.copy()
            K.frame = bkey(*bases[0])
            return "N", ("N", o_enu(P, bases[0])), K
        if k == "G" and m in ("ENU", "PROJ") and len(bases) == 1 and bases[0] == ("S", 2154):
            K = kn.copy()
            K.frame = ("S", 2154)
            return "N", None, K
        if k == "N" and bases and (pb(bases[0]) or bases[0] == ("S", 2154)):
            F = bases[0] if bases[0][0] == "S" else bkey(*bases[0])
            K = kn.copy() if kn.frame == F else Know()
            K.frame = None
            K.enu[F] = list(v)
            if m == "GEO" and len(bases) == 1:
                return "G", (None if bases[0][0] == "S" else ("P", o_unenu(v, bases[0]))), K
            if bases[0][0] == "S":
                return None
            if m == "ECEF" and len(bases) == 1:
                return "E", ("P", o_unenu(v, bases[0])), K
            if m == "ENU" and len(bases) == 2 and pb(bases[1]):
                K.frame = bkey(*bases[1])
                return "N", ("N", o_enu(o_unenu(v, bases[0]), bases[1])), K
        return None

    def check(self, what, rk, rv, exp):
        """V and R on one result; returns (message | None, knowledge of the result)"""
        ek, form, K = exp
        if rk != ek:
            return "%s is a %s object, expected %s" % (what, rk, ek), K
        if not all(math.isfinite(x) for x in rv):
            return "%s is not finite: %r" % (what, rv), K
        # V: closed form from the current values
        if form is not None:
            tag, w = form
            if rk == "G" and not in_domain("G", o_e2g(w)):
                K.geo, K.ecef = list(rv), o_g2e(rv)
                return None, K      # local coordinates that designate a position outside the property's domain
            got = rv if rk != "G" else o_g2e(rv)
            d = m_diff(got, w)
            if d:
                if rk == "G":
                    return "%s is %r, the closed form from the current values of point and base gives %r: position %s" % (
                        what, rv, o_e2g(w), d), K
                return "%s is %r, the closed form from the current values of point and base gives %r: %s" % (what, rv, w, d), K
        # R: round trips (the property's bound)
        if rk == "G":
            if K.geo is not None:
                d = geo_diff(rv, K.geo)
                if d:
                    return "%s is %r but the position it was derived from is %r: %s" % (what, rv, K.geo, d), K
            else:
                K.geo, K.ecef = list(rv), (K.ecef or o_g2e(rv))
        elif rk == "E":
            if K.ecef is not None:
                d = m_diff(rv, K.ecef)
                if d:
                    return "%s is %r but the position it was derived from is %r: %s" % (what, rv, K.ecef, d), K
            else:
                K.ecef, K.geo = list(rv), (K.geo or o_e2g(rv))
        else:
            if K.frame in K.enu:
                d = m_diff(rv, K.enu[K.frame])
                if d:
                    return "%s is %r but the local coordinates it was derived from (same base) are %r: %s" % (
                        what, rv, K.enu[K.frame], d), K
            else:
                K.enu[K.frame] = list(rv)
        return None, K

    def add(self, obj, K):
        self.vals.append([obj[0], list(obj[1:])])
        self.know.append(K)

    # ---- the whole history
    def run(self, case, out):
        for j, op in enumerate(case["ops"]):
            st = out["steps"][j] if j < len(out["steps"]) else None
            if op[0] == "new":
                if st is None:
                    return None
                self.named[op[1]] = len(self.vals)
                self.add([op[2]] + list(op[3]), root(op[2], op[3]))
                continue
            if op[0] == "set":
                if st is None:
                    return None
                b = self.val(op[1])
                if b[0] != "R":
                    return None
                i = b[1]
                self.vals[i][1][op[2]] = float(op[3])
                self.know[i] = root(self.vals[i][0], self.vals[i][1])
                continue
            if op[0] == "mk":
                if st is None:
                    return None
                refs = [self.val(r) for r in op[1]]
                if any(r[0] != "R" for r in refs):
                    return None
                self.tracks.append({"pts": [r[1] for r in refs], "base": self.val(op[2])})
                continue
            n0 = len(self.vals)
            if op[0] == "call":
                src = self.val(op[2])
                if src[0] != "R":
                    return None
                i = src[1]
                bases = []
                for v in op[4]:
                    b = self.val(v)
                    bases.append(("S", b[1]) if b[0] == "S" else self.pt(b))
                if any(b is None for b in bases):
                    return None
                exp = self.convert(self.vals[i][0], self.vals[i][1], self.know[i], op[3], bases)
                if exp is None:
                    return None          # refused / not a conversion the property speaks about
                name = opname(op)
                if st is None:
                    return "op %d, %s on %r with base(s) %r failed with %s" % (j, name, self.vals[i], bases, out["err"])
                m = self.frame_clause(j, name, st)
                if m:
                    return m
                if st["res"] is None or (st["res"] >= n0 and len(st["new"]) != 1) or (st["res"] < n0 and st["new"]):
                    return "op %d, %s: result %r, new objects %r" % (j, name, st["res"], st["new"])
                obj = st["new"][0] if st["res"] >= n0 else [self.vals[st["res"]][0]] + self.vals[st["res"]][1]
                msg, K = self.check("op %d, %s with point %r and base(s) %r: the result" % (j, name, self.vals[i], bases),
                                    obj[0], obj[1:], exp)
                if msg:
                    return msg
                if st["res"] >= n0:
                    self.add(obj, K)
                self.named[op[1]] = st["res"]
                continue
            if op[0] == "tc":
                r = self.track_conv(j, op, st, out)
                if r is not None:
                    return None if r == "stop" else r
            if op[0] == "tif":
                t = self.tracks[op[1]]
                if not t["pts"]:
                    return None
                kinds = {self.vals[p][0] for p in t["pts"]}
                if len(kinds) != 1:
                    return None
                if kinds == {"G"} or (kinds == {"E"} and st is not None and (st["new"] or st["trk"][0] != t["pts"])):
                    # (the code converts a geographic track only; a track of ECEF positions is left alone. Whether such a
                    # track "needs" the conversion is not fixed by the property: if it was converted, it is judged the same way)
                    # the library picks the base (a copy of the first position, today): judged against the base on record
                    r = self.track_conv(j, op, st, out, default=True)
                    if r is not None:
                        return None if r == "stop" else r
                    # what the method returns ("used reference point"): a base the caller may pass to the return
                    # conversion, so it has to denote the base on record; which point that is, is the library's choice
                    rb = self.pt(self.tracks[op[1]]["base"])
                    if st["res"] is None or self.vals[st["res"]][0] != "G" or rb is None or \
                            geo_diff(self.vals[st["res"]][1], rb[1]):
                        return "op %d, %s returns %r, but the base it recorded (Track.base) is %r" % (
                            j, opname(op), None if st["res"] is None else self.vals[st["res"]], rb)
                    if op[2] is not None:
                        self.named[op[2]] = st["res"]
                else:
                    if st is None:
                        return "op %d, %s on a track of %s positions failed with %s" % (j, opname(op), kinds, out["err"])
                    m = self.frame_clause(j, opname(op), st)
                    if m:
                        return m
                    if st["new"] or st["trk"][0] != t["pts"]:
                        return "op %d, %s on a track that is not in geographic coordinates changed it: %r" % (j, opname(op), st)
        return None

    def frame_clause(self, j, name, st):
        if st["changed"]:
            c = st["changed"][0]
            return "op %d, %s changed an object that existed before the call: object %d was %r and is now %r" % (
                j, name, c[0], self.vals[c[0]], c[1:])
        return None

    def track_conv(self, j, op, st, out, default=False):
        """one whole-track conversion. default = the call leaves the choice of the base to the library
        (Track.toENUCoords() without argument on a Geo/ECEF track, Track.toENUCoordsIfNeeded()): the property does not say
        which point that is — it says the conversion records the base it used — so the conversion is judged against the
        base the track has on record after the call, whatever point that is"""
        t = self.tracks[op[1]]
        name = opname(op)
        if not t["pts"]:
            return "stop"
        kinds = {self.vals[p][0] for p in t["pts"]}
        if len(kinds) != 1:
            return "stop"                 # mixed classes: outside the property
        k0 = kinds.pop()
        m = op[2] if op[0] == "tc" else "ENU"
        arg = ("none",) if op[0] == "tif" else self.val(op[3])
        used, noop, rec = None, False, None
        n0 = len(self.vals)
        objs = {} if st is None else {n0 + i: o for i, o in enumerate(st["new"])}
        getobj = lambda r: objs[r] if r >= n0 else [self.vals[r][0]] + self.vals[r][1]
        if m in ("ECEF", "GEO"):
            if (m == "ECEF" and k0 == "E") or (m == "GEO" and k0 == "G"):
                noop = True
            elif k0 == "N":
                used = t["base"] if arg[0] == "none" else arg
                if used[0] == "none":
                    return "stop"
                bases = [("S", used[1]) if used[0] == "S" else self.pt(used)]
            else:
                bases = []
        elif m == "ENU":
            if k0 == "N":
                if arg[0] == "none" or t["base"][0] == "none":
                    return "stop"
                b1 = ("S", t["base"][1]) if t["base"][0] == "S" else self.pt(t["base"])
                b2 = ("S", arg[1]) if arg[0] == "S" else self.pt(arg)
                bases = [b1, b2]
                rec = b2
            elif arg[0] == "none" or default:
                if any(not in_domain(k0, self.vals[p][1]) for p in t["pts"]):
                    return "stop"
                if st is None:
                    return "op %d, %s on a track of %d %s positions (Track.base %r) failed with %s" % (
                        j, name, len(t["pts"]), k0, t["base"], out["err"])
                b = st["trk"][1]
                o = getobj(b[1]) if (b is not None and b[0] == "R" and (b[1] < n0 or b[1] in objs)) else None
                if o is None or o[0] != "G" or not all(math.isfinite(x) for x in o[1:]):
                    return "op %d, %s (the library chooses the base): Track.base is %r afterwards, expected the base used, as GeoCoords" % (
                        j, name, b if o is None else o)
                bases = [("G", list(o[1:]))]
                rec = bases[0]
            else:
                used = arg
                bases = [("S", used[1]) if used[0] == "S" else self.pt(used)]
                rec = bases[0]
        else:
            if k0 != "G" or arg[0] != "S":
                return "stop"
            bases = [("S", arg[1])]
            rec = bases[0]
        exps = []
        if not noop:
            for p in t["pts"]:
                e = self.convert(self.vals[p][0], self.vals[p][1], self.know[p], m, bases)
                if e is None:
                    return "stop"
                exps.append(e)
        if st is None:
            return "op %d, %s on a track of %d %s positions (Track.base %r) failed with %s" % (
                j, name, len(t["pts"]), k0, t["base"], out["err"])
        msg = self.frame_clause(j, name, st)
        if msg:
            return msg
        pts, base = st["trk"]
        if len(pts) != len(t["pts"]) or any(r >= n0 + len(st["new"]) for r in pts):
            return "op %d, %s: the track now holds %d positions, it had %d" % (j, name, len(pts), len(t["pts"]))
        newknow = {}
        if noop:
            for r, p in zip(pts, t["pts"]):
                o = getobj(r)
                d = None if o[0] == k0 else "class %s" % o[0]
                d = d or (geo_diff(o[1:], self.vals[p][1]) if k0 == "G" else m_diff(o[1:], self.vals[p][1]))
                if d:
                    return "op %d, %s on a track already in these coordinates: position %r became %r (%s)" % (j, name, self.vals[p], o, d)
                newknow[r] = self.know[p].copy()
        else:
            for idx, (r, p, e) in enumerate(zip(pts, t["pts"], exps)):
                o = getobj(r)
                msg, K = self.check("op %d, %s: position %d (was %r, base(s) %r)" % (j, name, idx, self.vals[p], bases), o[0], o[1:], e)
                if msg:
                    return msg
                newknow[r] = K
        # B: the base on record
        newbase = t["base"]
        if rec is not None:
            if rec[0] == "S":
                if base != ["S", rec[1]]:
                    return "op %d, %s: Track.base is %r, expected the SRID %d" % (j, name, base, rec[1])
                newbase = ("S", rec[1])
            else:
                if base is None or base[0] != "R":
                    return "op %d, %s: Track.base is %r, expected the base %r as GeoCoords" % (j, name, base, rec)
                o = getobj(base[1])
                want = list(rec[1]) if rec[0] == "G" else o_e2g(rec[1])
                d = None if o[0] == "G" else "it is a %s object" % o[0]
                d = d or geo_diff(o[1:], want)
                if d:
                    return "op %d, %s: Track.base is %r but the base used is %r (geographic %r): %s" % (j, name, o, rec, want, d)
                # a new object follows its own later updates; an older object (the caller's) is taken at its value now
                newbase = ("R", base[1]) if base[1] >= n0 else ("V", "G", list(o[1:]))
        elif base != (None if t["base"][0] == "none" else ["S", t["base"][1]] if t["base"][0] == "S" else
                      ["R", t["base"][1]] if t["base"][0] == "R" else base):
            return "op %d, %s: Track.base became %r (it was %r)" % (j, name, base, t["base"])
        # commit
        for i, o in enumerate(st["new"]):
            r = n0 + i
            self.add(o, newknow.get(r) or root(o[0], o[1:]))
        for r, K in newknow.items():
            if r < n0:
                pass
        t["pts"], t["base"] = list(pts), newbase
        return None


def finding_recorded_base(case, msg):
    """the listed finding, met in a history: Track.toENUCoords() without argument on a track of ECEFCoords positions takes the
    first position (an ECEFCoords) as base and records its closed-form inverse, about a micrometre away; what comes back
    through the record is shifted by that much, which within 0.6 degree of a pole is more than 1e-9 degree of longitude
    (never more than 1e-8 degree; latitude within the bound). Recognised from the oracle's message (a round-trip clause R on
    a geographic result: the longitude alone is off, by less than 1e-8 degree, for a position beyond 89.4 degrees) and from
    the history (such a call before the failing op)."""
    import re
    m = re.match(r"op (\d+), .* but the position it was derived from is \[([^\]]+)\]: angles differ by "
                 r"\(([-+.\de]+), ([-+.\de]+)\) deg$", msg, re.S)
    if not m:
        return False
    j = int(m.group(1))
    try:
        lat = float(m.group(2).split(",")[1])
    except (ValueError, IndexError):
        return False
    if float(m.group(3)) > 1e-8 or float(m.group(4)) > TOL_DEG or abs(lat) < 89.4:
        return False
    s = Static()
    for op in case["ops"][:j]:
        if op[0] == "tc" and op[2] == "ENU" and op[3] is None and isinstance(op[1], int) and 0 <= op[1] < len(s.tracks) \
                and s.tracks[op[1]]["kinds"] and s.tracks[op[1]]["kinds"][0] == "E":
            return True
        s.step(op)
        if s.dead or not s.ok:
            break
    return False


def spec(case, out):
    if "steps" not in out:
        return "history raised %s: %s" % (out.get("err"), out.get("detail"))
    return Oracle().run(case, out)


# ------------------------------------------------------------------------------------------------------
# generator
# ------------------------------------------------------------------------------------------------------
class Builder:
    """grows a well-formed history; knows the class of everything (Static) and where on the globe it is working"""

    def __init__(self, P, rng, france):
        self.P, self.rng, self.france = P, rng, france
        self.ops = []
        self.s = Static()
        self.n = 0
        self.home = P.rand_france(rng) if france else P.rand_geo(rng)
        self.used_bases = []     # refs used as a base so far (favoured for updates and re-use)

    # ---- values
    def geo(self, near=None):
        rng, P = self.rng, self.P
        if near is None and rng.random() < 0.6:
            near = self.home
        if near is not None:
            g = P.near(near, rng, rng.choice([10.0, 1000.0, 1e5]))
        else:
            g = P.rand_france(rng) if self.france else P.rand_geo(rng)
        if self.france:
            g = [min(10.0, max(-5.0, g[0])), min(51.0, max(41.0, g[1])), g[2]]
        return g

    def emit(self, op):
        self.ops.append(op)
        self.s.step(op)
        assert self.s.ok, op

    def name(self):
        self.n += 1
        return "x%d" % self.n

    def new(self, kind, g=None):
        nm = self.name()
        if kind == "N":
            v = [self.rng.uniform(-1e4, 1e4), self.rng.uniform(-1e4, 1e4), self.rng.uniform(-100, 1000)]
        else:
            g = g or self.geo()
            v = list(g) if kind == "G" else o_g2e(g)
        self.emit(["new", nm, kind, v])
        return ["o", nm]

    def how(self):
        return self.rng.choice(["setter", "attr"])

    def update(self, ref):
        """in-place update of the object behind ref, staying inside the property's domain"""
        rng = self.rng
        k = self.s.val_kind(ref)
        if k == "N":
            self.emit(["set", ref, rng.randrange(3), rng.uniform(-1e4, 1e4), self.how()])
            return
        g = self.geo() if rng.random() < 0.7 else (self.P.rand_france(rng) if self.france else self.P.rand_geo(rng))
        if k == "G":
            if rng.random() < 0.55:
                c = rng.randrange(3)
                self.emit(["set", ref, c, g[c], self.how()])
            else:
                for c in rng.sample([0, 1, 2], 3):
                    self.emit(["set", ref, c, g[c], self.how()])
        else:
            v = o_g2e(g)
            for c in rng.sample([0, 1, 2], 3):
                self.emit(["set", ref, c, v[c], self.how()])

    # ---- choices
    def objs(self, kinds):
        return [["o", n] for n, k in self.s.objs.items() if k in kinds]

    def base(self, fresh=0.3):
        """a reference to a GeoCoords/ECEFCoords object to be used as a base: a new one, or one already there"""
        rng = self.rng
        cand = self.objs("GE")
        for k, t in enumerate(self.s.tracks):
            if t["base"] in ("G", "E"):
                cand.append(["tb", k])
            cand += [["tp", k, i] for i, kk in enumerate(t["kinds"]) if kk in "GE"][:2]
        if self.used_bases and rng.random() < 0.6:
            live = [b for b in self.used_bases if self.s.val_kind(b) in ("G", "E")]
            self.s.ok = True
            if live:
                b = rng.choice(live[-3:])
                return b
        if not cand or rng.random() < fresh:
            b = self.new(rng.choice("GGE"))
        else:
            b = rng.choice(cand)
        return b

    def use(self, b):
        if b is not None and b[0] != "S" and b not in self.used_bases:
            self.used_bases.append(b)
        return b

    def call(self, ref, m, args):
        nm = self.name()
        for a in args:
            self.use(a)
        self.emit(["call", nm, ref, m, args])
        return ["o", nm]

    def random_call(self):
        rng = self.rng
        cand = self.objs("GNE")
        for k, t in enumerate(self.s.tracks):
            cand += [["tp", k, i] for i in range(len(t["kinds"]))][:3]
            if t["base"] in ("G", "E"):
                cand.append(["tb", k])
        if not cand:
            return self.new(rng.choice("GGEN"))
        src = rng.choice(cand[-8:]) if rng.random() < 0.7 else rng.choice(cand)
        k = self.s.val_kind(src)
        S = ["S", 2154]
        if k == "G":
            m = rng.choice(["ECEF", "ENU", "ENU", "ENU", "GEO"] + (["PROJ", "ENU_S"] if self.france else []))
            if m == "ENU":
                return self.call(src, "ENU", [src if rng.random() < 0.15 else self.base()])
            if m == "ENU_S":
                return self.call(src, "ENU", [S])
            return self.call(src, m, [S] if m == "PROJ" else [])
        if k == "E":
            m = rng.choice(["GEO", "ENU", "ENU", "ENU", "ECEF"])
            return self.call(src, m, [src if rng.random() < 0.15 else self.base()] if m == "ENU" else [])
        m = rng.choice(["ECEF", "GEO", "GEO", "ENU"])
        if m == "ENU":
            return self.call(src, "ENU", [self.base(), self.base()])
        return self.call(src, m, [self.base()])

    def mk(self, kind, n, base=None, shared=False):
        if shared:
            have = self.objs(kind)
            refs = [self.rng.choice(have) if have and self.rng.random() < 0.5 else self.new(kind) for _ in range(n)]
        else:
            g0 = self.geo()
            refs = [self.new(kind, g0 if i == 0 else self.geo(g0)) for i in range(n)]
        self.emit(["mk", refs, base])
        self.last_refs = refs
        return len(self.s.tracks) - 1

    def tc(self, k, m, arg):
        self.use(arg)
        self.emit(["tc", k, m, arg])

    def random_tc(self, k):
        rng = self.rng
        t = self.s.tracks[k]
        if not t["kinds"]:
            return
        k0 = t["kinds"][0]
        S = ["S", 2154]
        if rng.random() < (0.12 if k0 == "G" else 0.03):
            self.emit(["tif", k, self.name() if k0 == "G" else None])
            if k0 == "G":
                self.use(["o", "x%d" % self.n])
            return
        if k0 == "G":
            m = rng.choice(["ENU", "ENU", "ENU", "ECEF", "GEO"] + (["PROJ", "ENU_S"] if self.france else []))
            if m == "ENU":
                r = rng.random()
                self.tc(k, "ENU", None if r < 0.25 else ["tp", k, rng.randrange(len(t["kinds"]))] if r < 0.4 else self.base())
            elif m == "ENU_S":
                self.tc(k, "ENU", S)
            elif m == "PROJ":
                self.tc(k, "PROJ", S)
            else:
                self.tc(k, m, None)
        elif k0 == "E":
            m = rng.choice(["ENU", "ENU", "ENU", "GEO", "ECEF"])
            if m == "ENU":
                r = rng.random()
                self.tc(k, "ENU", None if r < 0.25 else ["tp", k, rng.randrange(len(t["kinds"]))] if r < 0.4 else self.base())
            else:
                self.tc(k, m, None)
        else:
            has = t["base"] in ("G", "E")
            sr = t["base"] == "int"
            m = rng.choice(["GEO", "GEO", "ECEF", "ENU"])
            if sr:
                self.tc(k, "GEO", None if rng.random() < 0.6 else S)
            elif m == "ENU":
                if has:
                    self.tc(k, "ENU", self.base())
                else:
                    self.tc(k, "GEO", self.base())
            else:
                r = rng.random()
                if has and r < 0.5:
                    self.tc(k, m, None)
                elif has and r < 0.7:
                    self.tc(k, m, ["tb", k])
                else:
                    self.tc(k, m, self.base())

    def illegal(self):
        """one refused call, last op of the history (error kinds are compared with the model's)"""
        rng = self.rng
        g = self.new("G")
        n = self.new("N")
        e = self.new("E")
        nm = self.name()
        S = ["S", 2154]
        op = rng.choice([
            ["call", nm, g, "ENU", [n]], ["call", nm, e, "ENU", [n]], ["call", nm, n, "GEO", [n]],
            ["call", nm, g, "ENU", [None]], ["call", nm, n, "ECEF", [None]], ["call", nm, e, "ENU", [S]],
            ["call", nm, n, "ECEF", [S]], ["call", nm, n, "ENU", [S, g]], ["call", nm, n, "ENU", [n, S]],
            ["call", nm, n, "ENU", [g, n]], ["call", nm, g, "ECEF", [e]], ["call", nm, n, "ECEF", []],
            ["call", nm, n, "ENU", [g]], ["call", nm, e, "GEO", [g]], ["call", nm, e, "PROJ", [S]],
            ["call", nm, n, "PROJ", [S]], ["call", nm, g, "PROJ", [["S", 4326]]], ["call", nm, g, "ENU", [["S", 1234]]],
            ["call", nm, n, "GEO", [["S", 4326]]], ["call", nm, g, "PROJ", [e]], ["call", nm, g, "ENU", []],
        ])
        self.ops.append(op)


def rand_hist(P, rng):
    france = rng.random() < 0.3
    b = Builder(P, rng, france)
    r = rng.random()
    S = ["S", 2154]
    if r < 0.16:
        # the same base object serves two places (point level)
        p = b.new(rng.choice("GGE"))
        B = b.new(rng.choice("GGE"))
        n1 = b.call(p, "ENU", [B])
        if rng.random() < 0.5:
            b.call(n1, rng.choice(["GEO", "ECEF"]), [B])
        b.update(B)
        p2 = p if rng.random() < 0.4 else b.new(rng.choice("GGE"))
        n2 = b.call(p2, "ENU", [B])
        t = rng.random()
        if t < 0.4:
            b.call(B, "ENU", [B])
        elif t < 0.8:
            b.call(n2, rng.choice(["GEO", "ECEF"]), [B])
    elif r < 0.30:
        # a first track uses the base, the caller moves the base, a second track uses it and comes back without argument
        B = b.new(rng.choice("GGE"))
        w = b.mk(rng.choice("GE"), rng.choice([1, 2]))
        b.tc(w, "ENU", B)
        b.update(B)
        t = b.mk(rng.choice("GGE"), rng.choice([1, 2, 3, 4]))
        b.tc(t, "ENU", B)
        b.tc(t, rng.choice(["GEO", "ECEF"]), None)
    elif r < 0.42:
        # the caller updates his base object between the two legs of a whole-track round trip
        B = b.new(rng.choice("GGE"))
        t = b.mk(rng.choice("GGE"), rng.choice([1, 2, 3]))
        b.tc(t, "ENU", B)
        b.update(B)
        b.tc(t, rng.choice(["GEO", "GEO", "ECEF"]), None)
        if rng.random() < 0.6:
            b.tc(t, "ENU", B)
            b.tc(t, rng.choice(["GEO", "ECEF"]), rng.choice([None, B]))
    elif r < 0.50:
        # an ENU track built on the caller's base object
        Hm = b.new(rng.choice("GGE"))
        t = b.mk("N", rng.choice([1, 2, 3]), Hm)
        if rng.random() < 0.5:
            b.update(Hm)
        b.tc(t, rng.choice(["GEO", "ECEF"]), None)
        b.tc(t, "ENU", Hm if rng.random() < 0.5 else b.base())
        if rng.random() < 0.5:
            b.update(Hm)
        b.tc(t, "GEO", rng.choice([None, ["tb", t]]))
    elif r < 0.58:
        # the base is (or was) a position of the track, updated afterwards (a height filled in later)
        n = rng.choice([2, 3, 4])
        t = b.mk(rng.choice("GGE"), n, None, shared=rng.random() < 0.3)
        B = b.last_refs[0] if rng.random() < 0.5 else rng.choice(b.last_refs)      # the caller still holds this object
        b.tc(t, "ENU", None if B == b.last_refs[0] and rng.random() < 0.5 else B)
        b.update(["tb", t] if rng.random() < 0.25 else B)
        b.tc(t, rng.choice(["GEO", "GEO", "ECEF"]), None)
        b.tc(t, "ENU", B)
        if rng.random() < 0.5:
            b.tc(t, "GEO", rng.choice([None, B]))
    elif r < 0.62:
        # toENUCoordsIfNeeded: the caller updates the base he was handed back, then comes back / goes again
        t = b.mk("G", rng.choice([1, 2, 3]), None, shared=rng.random() < 0.3)
        nm = b.name()
        b.emit(["tif", t, nm])
        B = ["o", nm]
        if rng.random() < 0.7:
            b.update(B if rng.random() < 0.7 else b.last_refs[0])
        b.tc(t, rng.choice(["GEO", "ECEF"]), rng.choice([None, None, B]))
        if rng.random() < 0.5:
            b.emit(["tif", t, None])
    elif r < 0.67:
        # conversions to the class the object already has: copies
        g = b.new(rng.choice("GE"))
        k = b.s.val_kind(g)
        c = b.call(g, "GEO" if k == "G" else "ECEF", [])
        b.update(rng.choice([g, c]))
        b.call(g, "ECEF" if k == "G" else "GEO", [])
        b.call(c, "ECEF" if k == "G" else "GEO", [])
    else:
        # random walk
        for _ in range(rng.choice([4, 6, 8, 10, 12])):
            q = rng.random()
            if q < 0.12 or (not b.s.objs and not b.s.tracks):
                b.new(rng.choice("GGENN"))
            elif q < 0.32:
                cand = [x for x in b.used_bases if b.s.val_kind(x) in ("G", "E", "N")]
                b.s.ok = True
                if cand and rng.random() < 0.7:
                    b.update(rng.choice(cand[-3:]))
                else:
                    objs = b.objs("GNE")
                    if objs:
                        b.update(rng.choice(objs))
            elif q < 0.62:
                b.random_call()
            elif q < 0.70 or not b.s.tracks:
                kind = rng.choice("GGENN")
                base = None
                if kind == "N":
                    base = rng.choice([None, b.base(), b.base()] + ([S] if france else []))
                b.mk(kind, rng.choice([1, 2, 3]), base, shared=rng.random() < 0.3)
            else:
                b.random_tc(rng.randrange(len(b.s.tracks)))
    if rng.random() < 0.06:
        b.illegal()
    return {"kind": "hist", "ops": b.ops}


# ------------------------------------------------------------------------------------------------------
# tags, shrinking
# ------------------------------------------------------------------------------------------------------
def features(case):
    """does the history update an object in place after it served as a base, and use it again afterwards?"""
    used, updated, reused = set(), set(), False
    nset = 0
    for op in case["ops"]:
        if op[0] == "set":
            nset += 1
            k = repr(op[1])
            if k in used:
                updated.add(k)
        else:
            vs = op[4] if op[0] == "call" else [op[3]] if op[0] == "tc" else [op[2]] if op[0] == "mk" else []
            for v in vs:
                if v is not None and v[0] != "S":
                    if repr(v) in updated:
                        reused = True
                    used.add(repr(v))
    return {"base_updated_then_reused": reused, "updates": min(nset, 4), "tracks": sum(1 for o in case["ops"] if o[0] == "mk") > 0}


def typed_hist(case, ty):
    """the history with its values moved (deterministically: equal values stay equal) so that the int-like slots of ty apply,
    and tagged with ty: every new / set op hands its numbers over in these types (geo14.py)"""
    s = Static()
    ops = []
    for op in case["ops"]:
        if op[0] == "new":
            op = ["new", op[1], op[2], fit3(op[2], op[3], ty)]
        elif op[0] == "set":
            ok = s.ok
            k = s.val_kind(op[1])
            s.ok = ok
            v = [0.0, 0.0, 0.0]
            v[op[2]] = op[3]
            op = ["set", op[1], op[2], fit3(k if k in ("G", "E", "N") else "N", v, ty)[op[2]], op[4]]
        ops.append(op)
        if not s.dead:
            s.step(op)
    return dict(case, ops=ops, ty=list(ty))


def shrink(case):
    for c in _shrink(case):
        if case.get("ty"):
            c = dict(c, ty=case["ty"])
        yield c


def _shrink(case):
    ops = case["ops"]
    for i in range(len(ops) - 1, -1, -1):
        c = {"kind": "hist", "ops": ops[:i] + ops[i + 1:]}
        if valid(c):
            yield c
    # a track of fewer positions
    for i, op in enumerate(ops):
        if op[0] == "mk" and len(op[1]) > 1:
            for j in range(len(op[1]) - 1, -1, -1):
                c = {"kind": "hist", "ops": ops[:i] + [["mk", op[1][:j] + op[1][j + 1:], op[2]]] + ops[i + 1:]}
                if valid(c):
                    yield c
    # rounder numbers
    for i, op in enumerate(ops):
        if op[0] == "new" and op[2] == "G":
            q = [round(v, 3) for v in op[3]]
            if q != op[3] and abs(q[1]) < 89.9:
                yield {"kind": "hist", "ops": ops[:i] + [["new", op[1], "G", q]] + ops[i + 1:]}
