#!/venv/bin/python
"""Verification engine: ties the hand-written Lean models (lean/TracklibVerif) to /repo's
current working tree and decides one property per invocation.

    ./check C03 --tier quick|thorough [--seed N]
    ./check C03 --replay replays/C03-1.json

Per run (DESIGN.md section 2.3):
  build     lake build of the Lean library and of the native model driver (no-op when up to date)
  audit     the theorems registered for the property exist, and `#print axioms` of each is within
            {propext, Classical.choice, Quot.sound}; no sorry/admit/axiom/native_decide/... in sources
  corr      implementation (real tracklib, in-process) vs model (Lean driver) on corpus +
            enumerated small scopes + seeded random cases
  transfer  the property's executable oracle evaluated on the implementation's outputs
  known     every entry of known_findings.json for the property is replayed on the real code

Exit 0: held on everything explored (KNOWN-FINDING lines for listed findings).
Exit 1: `VIOLATION property=<id> replay=<path>` (ends with no-failing-input-found when a proof /
        the correspondence broke but no concrete failing input could be exhibited).
Exit 2: the harness itself failed (never used to hide a violation).
"""
import sys
sys.dont_write_bytecode = True
import os, json, time, random, subprocess, hashlib, importlib, io, re, traceback, math, fcntl, struct
import multiprocessing

VERIF = os.path.dirname(os.path.dirname(os.path.abspath(__file__)))
LEAN = os.path.join(VERIF, "lean")
DRIVER = os.path.join(LEAN, ".lake", "build", "bin", "tvdriver")
REPO = os.environ.get("TRACKLIB_REPO", "/repo")
ALLOWED_AXIOMS = {"propext", "Classical.choice", "Quot.sound"}
FORBIDDEN = re.compile(r"\b(sorry|admit|native_decide|bv_decide|implemented_by|unsafe|maxHeartbeats\s+0)\b|^\s*axiom\s")

_real_stdout = sys.stdout
_real_stderr = sys.stderr


def say(*a):
    print(*a, file=_real_stdout, flush=True)


# --------------------------------------------------------------------------------------
# float <-> protocol
# --------------------------------------------------------------------------------------
def fbits(x):
    """float -> protocol token (decimal IEEE-754 bit pattern, NaN as `nan`)"""
    x = float(x)
    if x != x:
        return "nan"
    return str(struct.unpack(">Q", struct.pack(">d", x))[0])


def bitsf(tok):
    if tok == "nan":
        return float("nan")
    return struct.unpack(">d", struct.pack(">Q", int(tok)))[0]


def ratstr(x):
    """exact rational token for an int / Fraction / float holding a dyadic value"""
    from fractions import Fraction
    f = Fraction(x)
    return str(f.numerator) if f.denominator == 1 else "%d/%d" % (f.numerator, f.denominator)


def parse_rat(tok):
    from fractions import Fraction
    return Fraction(tok)


def tok_list(items, sep=","):
    items = list(items)
    return sep.join(items) if items else "_"


def untok(tok, sep=","):
    return [] if tok in ("_", "") else tok.split(sep)


def close(a, b, rel=1e-9, abs_=1e-12):
    """tolerant comparison of canonical outputs (numbers by tolerance, NaN == NaN, rest exact)"""
    if isinstance(a, bool) or isinstance(b, bool):
        return a == b
    if isinstance(a, (int, float)) and isinstance(b, (int, float)):
        fa, fb = float(a), float(b)
        if fa != fa or fb != fb:
            return fa != fa and fb != fb
        if math.isinf(fa) or math.isinf(fb):
            return fa == fb
        return abs(fa - fb) <= max(abs_, rel * max(1.0, abs(fa), abs(fb)))
    if isinstance(a, (list, tuple)) and isinstance(b, (list, tuple)):
        return len(a) == len(b) and all(close(x, y, rel, abs_) for x, y in zip(a, b))
    if isinstance(a, dict) and isinstance(b, dict):
        return a.keys() == b.keys() and all(close(a[k], b[k], rel, abs_) for k in a)
    return a == b


# --------------------------------------------------------------------------------------
# the property interface
# --------------------------------------------------------------------------------------
class Prop:
    """One property. Subclasses live in harness/props/cNN.py as `P`."""
    id = "C00"
    design_ref = "DESIGN.md section 5"
    # (Lean module, fully qualified theorem name, one-line meaning)
    theorems = []
    partial = []          # names among `theorems` that prove only part of the statement + what is missing
    open_statements = []  # planned statements not proved (the property rests on corr + sampling there)
    modelled = ""         # which code is modelled
    trusted = []          # extra trusted-base lines
    rule = ""             # how cases are generated and what makes one non-trivial
    rel_tol = 1e-9
    # Lean modules whose theorems tie *generated* definitions (tools/py2lean.py: translated from /repo's
    # current source on every run into lean/TracklibVerif/Gen/) to the hand-written model. They are outside
    # the library root, built per property: a change to a translated function breaks only this build.
    tie_modules = []

    def setup(self):
        """import tracklib pieces (called once per process, stdout silenced)"""

    def corpus(self):
        """minimised past disagreements / regression witnesses, run first"""
        d = os.path.join(VERIF, "corpus", self.id)
        out = []
        if os.path.isdir(d):
            for f in sorted(os.listdir(d)):
                if f.endswith(".json"):
                    with open(os.path.join(d, f)) as fh:
                        c = json.load(fh)
                    out.append(c.get("case", c))
        return out

    def cases(self, rng, tier):
        """yield JSON-serialisable cases (exhaustive small scopes first, then random)"""
        return []

    def exhaustive_scopes(self, tier):
        """description of the scopes enumerated completely in this tier (for the evidence)"""
        return []

    def impl(self, case):
        """run the real code; return a canonical JSON-able output. Exceptions are mapped by the engine."""
        raise NotImplementedError

    def requests(self, case):
        """lines for the Lean driver (without newline)"""
        raise NotImplementedError

    def decode(self, case, replies):
        """canonical output from the driver's replies (same shape as impl())"""
        raise NotImplementedError

    def compare(self, case, impl_out, model_out):
        """None when they agree, else a message. Default: tolerant deep equality."""
        if close(impl_out, model_out, self.rel_tol):
            return None
        return "impl=%s model=%s" % (json.dumps(impl_out)[:400], json.dumps(model_out)[:400])

    def spec(self, case, impl_out):
        """the property's oracle on the implementation's output: None if it holds, else what fails"""
        return None

    def nontrivial(self, case):
        return True

    def classify(self, case, impl_out, msg):
        """name of the known-finding class this failing case belongs to, or None"""
        return None

    def shrink(self, case):
        """yield smaller variants of a failing case"""
        return []

    def mutate(self, case, rng):
        """yield neighbours of a case on which model and implementation disagree (failing-input search)"""
        return []

    def search_cases(self, rng):
        """extra cases for the failing-input search (default: the thorough generator)"""
        return self.cases(rng, "thorough")

    def describe(self, case):
        """small dict of tags for the input-distribution histogram"""
        return {"kind": case.get("kind", "?")} if isinstance(case, dict) else {}


ERR_KINDS = [(ZeroDivisionError, "err:zerodiv"), (IndexError, "err:index"), (KeyError, "err:key"),
             (TypeError, "err:type"), (ValueError, "err:value"), (SystemExit, "err:exit"),
             (RecursionError, "err:recursion"), (AttributeError, "err:attr")]


def err_kind(e):
    for t, k in ERR_KINDS:
        if isinstance(e, t):
            return k
    return "err:" + type(e).__name__


class _Silence:
    def __enter__(self):
        self.o, self.e = sys.stdout, sys.stderr
        sys.stdout = io.StringIO()
        sys.stderr = io.StringIO()

    def __exit__(self, *a):
        sys.stdout, sys.stderr = self.o, self.e


def run_impl(prop, case):
    with _Silence():
        try:
            return prop.impl(case)
        except BaseException as e:  # tracklib calls exit(); map every failure to an enum
            if isinstance(e, KeyboardInterrupt):
                raise
            return {"err": err_kind(e), "detail": str(e)[:200]}


# --------------------------------------------------------------------------------------
# Lean side: build, audit, driver
# --------------------------------------------------------------------------------------
def lean_sources():
    out = []
    for root, dirs, files in os.walk(LEAN):
        dirs[:] = [d for d in dirs if d != ".lake"]
        for f in files:
            if f.endswith(".lean") or f == "lakefile.toml":
                out.append(os.path.join(root, f))
    return sorted(out)


def sources_digest():
    h = hashlib.sha256()
    for p in lean_sources():
        h.update(p.encode())
        with open(p, "rb") as fh:
            h.update(fh.read())
    return h.hexdigest()


class _Lock:
    def __enter__(self):
        os.makedirs(os.path.join(LEAN, ".lake"), exist_ok=True)
        self.fh = open(os.path.join(LEAN, ".lake", "verif.lock"), "w")
        fcntl.flock(self.fh, fcntl.LOCK_EX)

    def __exit__(self, *a):
        fcntl.flock(self.fh, fcntl.LOCK_UN)
        self.fh.close()


def ensure_build(clean_props=False):
    """lake build (library + driver). Returns (ok, log)."""
    with _Lock():
        t0 = time.time()
        # Driver.lean / TracklibVerif.lean are generated from the directory contents
        subprocess.run([sys.executable, os.path.join(VERIF, "tools", "gen_lean_roots.py")], stdout=subprocess.DEVNULL, stderr=subprocess.DEVNULL)
        p = subprocess.run(["lake", "build"], cwd=LEAN, stdout=subprocess.PIPE, stderr=subprocess.STDOUT, text=True)
        ok = p.returncode == 0 and os.path.exists(DRIVER)
        log = p.stdout[-4000:]
        return ok, log, time.time() - t0


def build_ties(prop):
    """Regenerate lean/TracklibVerif/Gen/*.lean from /repo's CURRENT source (tools/py2lean.py) and build the
    property's tie modules. Returns (ok, log). A failure means: a translated function no longer is (provably,
    by the committed tie proof) the function the model and its theorems are about."""
    if not prop.tie_modules:
        return True, ""
    with _Lock():
        g = subprocess.run([sys.executable, os.path.join(VERIF, "tools", "py2lean.py"), "--repo", REPO],
                           stdout=subprocess.PIPE, stderr=subprocess.STDOUT, text=True)
        if g.returncode != 0:
            return False, "py2lean failed: " + g.stdout[-1500:]
        p = subprocess.run(["lake", "build"] + list(prop.tie_modules), cwd=LEAN, stdout=subprocess.PIPE, stderr=subprocess.STDOUT, text=True)
        return p.returncode == 0, p.stdout[-3000:]


def strip_comments(text):
    text = re.sub(r"/-.*?-/", lambda m: "\n" * m.group(0).count("\n"), text, flags=re.S)
    return "\n".join(l.split("--")[0] for l in text.split("\n"))


def grep_forbidden():
    hits = []
    for p in lean_sources():
        if not p.endswith(".lean"):
            continue
        with open(p) as fh:
            body = strip_comments(fh.read())
        for n, line in enumerate(body.split("\n"), 1):
            if FORBIDDEN.search(line):
                hits.append("%s:%d: %s" % (os.path.relpath(p, VERIF), n, line.strip()[:120]))
    return hits


def audit(prop, use_cache=True, tie_broken=None):
    """returns dict: {theorem: {"ok": bool, "axioms": [...], "why": str}}, plus forbidden-token hits"""
    if tie_broken:
        # the tie modules do not build: audit the other theorems, report the tie theorems as not discharged
        class _Rest:
            id = prop.id
            theorems = [t for t in prop.theorems if t[0] not in prop.tie_modules]
        res, forb, cached = audit(_Rest, use_cache=False)
        for t in prop.theorems:
            if t[0] in prop.tie_modules:
                res[t[1]] = {"ok": False, "axioms": [], "why": "tie module does not build against the current source: " + tie_broken[-600:]}
        return res, forb, cached
    digest = sources_digest()
    cache_path = os.path.join(LEAN, ".lake", "audit_cache_%s.json" % prop.id)
    if use_cache and os.path.exists(cache_path):
        try:
            with open(cache_path) as fh:
                c = json.load(fh)
            if c.get("digest") == digest and c.get("names") == [t[1] for t in prop.theorems]:
                return c["result"], c["forbidden"], True
        except Exception:
            pass
    forbidden = grep_forbidden()
    result = {}
    mods = sorted({t[0] for t in prop.theorems})
    src = "".join("import %s\n" % m for m in mods) + "".join("#print axioms %s\n" % t[1] for t in prop.theorems)
    path = os.path.join(LEAN, ".lake", "audit_%s.lean" % prop.id)
    with _Lock():
        with open(path, "w") as fh:
            fh.write(src)
        p = subprocess.run(["lake", "env", "lean", path], cwd=LEAN, stdout=subprocess.PIPE, stderr=subprocess.STDOUT, text=True)
    out = p.stdout
    for mod, name, _ in prop.theorems:
        short = name
        m = re.search(r"'%s' depends on axioms: \[([^\]]*)\]" % re.escape(short), out, flags=re.S)
        if m:
            ax = [a.strip() for a in m.group(1).replace("\n", " ").split(",") if a.strip()]
            bad = [a for a in ax if a not in ALLOWED_AXIOMS]
            result[name] = {"ok": not bad, "axioms": ax, "why": ("uses axioms " + ",".join(bad)) if bad else ""}
        elif re.search(r"'%s' does not depend on any axioms" % re.escape(short), out):
            result[name] = {"ok": True, "axioms": [], "why": ""}
        else:
            err = [l for l in out.split("\n") if "error" in l][:3]
            result[name] = {"ok": False, "axioms": [], "why": "not found / does not compile: " + " | ".join(err)[:300]}
    try:
        with open(cache_path, "w") as fh:
            json.dump({"digest": digest, "names": [t[1] for t in prop.theorems], "result": result, "forbidden": forbidden}, fh)
    except Exception:
        pass
    return result, forbidden, False


def leanchecker(mods):
    p = subprocess.run(["lake", "env", "leanchecker"] + mods, cwd=LEAN, stdout=subprocess.PIPE, stderr=subprocess.STDOUT, text=True)
    return p.returncode == 0, p.stdout[-1500:]


def drive(lines):
    """send request lines to the native model driver, return reply lines"""
    if not lines:
        return []
    data = "\n".join(lines) + "\n"
    p = subprocess.run([DRIVER], input=data, stdout=subprocess.PIPE, stderr=subprocess.PIPE, text=True)
    out = p.stdout.split("\n")
    if out and out[-1] == "":
        out.pop()
    if p.returncode != 0 or len(out) != len(lines):
        raise RuntimeError("driver failed rc=%s replies=%d requests=%d stderr=%s first_unanswered=%s" % (
            p.returncode, len(out), len(lines), p.stderr[-300:], lines[len(out)] if len(out) < len(lines) else ""))
    return out


# --------------------------------------------------------------------------------------
# snapshot of the tracklib sources the committed checks were validated on
# --------------------------------------------------------------------------------------
def source_digests(repo):
    """{relative path: sha256 of the AST dump} for every tracklib/**/*.py (comments and layout do not count)"""
    import ast
    out = {}
    root = os.path.join(repo, "tracklib")
    for d, dirs, files in os.walk(root):
        dirs[:] = sorted(x for x in dirs if x != "__pycache__")
        for f in sorted(files):
            if not f.endswith(".py"):
                continue
            path = os.path.join(d, f)
            try:
                with open(path, "rb") as fh:
                    src = fh.read()
                try:
                    import warnings
                    with warnings.catch_warnings():
                        warnings.simplefilter("ignore")
                        norm = ast.dump(ast.parse(src)).encode()
                except SyntaxError:
                    norm = src
            except OSError:
                continue
            out[os.path.relpath(path, repo)] = hashlib.sha256(norm).hexdigest()
    return out


def changed_sources():
    """files of /repo's tracklib package that differ from source_lock.json (None when there is no lock)"""
    path = os.path.join(VERIF, "source_lock.json")
    if not os.path.exists(path):
        return None
    try:
        with open(path) as fh:
            lock = json.load(fh)["files"]
    except Exception:
        return None
    now = source_digests(REPO)
    return sorted(f for f in set(lock) | set(now) if lock.get(f) != now.get(f))


# --------------------------------------------------------------------------------------
# evaluation of a batch of cases
# --------------------------------------------------------------------------------------
def case_key(case):
    return hashlib.sha1(json.dumps(case, sort_keys=True).encode()).hexdigest()


def evaluate(prop, cases, with_model=True):
    """returns list of records {case, impl, model, corr, spec}"""
    impl_outs = [run_impl(prop, c) for c in cases]
    recs = []
    model_outs = [None] * len(cases)
    model_err = [None] * len(cases)
    if with_model:
        lines, spans = [], []
        for c in cases:
            try:
                ls = list(prop.requests(c))
            except Exception as e:
                ls = []
                model_err[len(spans)] = "requests() failed: %r" % e
            spans.append((len(lines), len(ls)))
            lines += ls
        replies = drive(lines)
        for i, c in enumerate(cases):
            if model_err[i]:
                continue
            a, n = spans[i]
            try:
                model_outs[i] = prop.decode(c, replies[a:a + n])
            except Exception as e:
                model_err[i] = "decode failed: %r on %r" % (e, replies[a:a + n][:3])
    for i, c in enumerate(cases):
        rec = {"case": c, "impl": impl_outs[i], "model": model_outs[i], "corr": None, "spec": None}
        if with_model:
            if model_err[i]:
                rec["corr"] = model_err[i]
            else:
                try:
                    rec["corr"] = prop.compare(c, impl_outs[i], model_outs[i])
                except Exception as e:
                    rec["corr"] = "compare raised %r" % e
        try:
            with _Silence():
                rec["spec"] = prop.spec(c, impl_outs[i])
        except Exception as e:
            rec["spec"] = "oracle raised %r" % e
            rec["oracle_crash"] = True
        recs.append(rec)
    return recs


def _worker(args):
    pid_, chunk, with_model = args
    try:
        import gc
        gc.freeze()      # the forked worker inherits the parent's case objects: keep them out of collections
    except Exception:
        pass
    prop = load_prop(pid_)
    with _Silence():
        prop.setup()
    recs = evaluate(prop, chunk, with_model)
    # keep only what the parent needs
    slim = []
    for r in recs:
        bad = r["corr"] or r["spec"]
        slim.append({"case": r["case"], "corr": r["corr"], "spec": r["spec"],
                     "impl": r["impl"] if bad else None, "model": r["model"] if bad else None,
                     "nt": bool(prop.nontrivial(r["case"])), "tags": prop.describe(r["case"]),
                     "crash": r.get("oracle_crash", False)})
    return slim


def evaluate_parallel(pid_, cases, with_model=True, jobs=None):
    jobs = jobs or min(16, os.cpu_count() or 1)
    if len(cases) < 400 or jobs == 1:
        return _worker((pid_, cases, with_model))
    n = min(jobs * 4, max(1, len(cases) // 100))
    size = (len(cases) + n - 1) // n
    chunks = [cases[i:i + size] for i in range(0, len(cases), size)]
    with multiprocessing.get_context("fork").Pool(jobs) as pool:
        parts = pool.map(_worker, [(pid_, ch, with_model) for ch in chunks])
    return [r for part in parts for r in part]


def load_prop(pid_):
    sys.path.insert(0, os.path.join(VERIF, "harness"))
    if REPO not in sys.path:
        sys.path.insert(0, REPO)
    mod = importlib.import_module("props." + pid_.lower())
    return mod.P()


# --------------------------------------------------------------------------------------
# known findings
# --------------------------------------------------------------------------------------
def load_known(pid_):
    path = os.path.join(VERIF, "known_findings.json")
    if not os.path.exists(path):
        return []
    with open(path) as fh:
        data = json.load(fh)
    return [e for e in data.get("entries", []) if e.get("property") == pid_]


def excused(prop, known, rec):
    """a failing case is excused only if it belongs to the class of a listed (unrepaired) finding"""
    cls = prop.classify(rec["case"], rec["impl"], rec["spec"])
    if cls is None:
        return None
    for e in known:
        if e.get("status") == "finding" and e.get("class") == cls:
            return e
    return None


# --------------------------------------------------------------------------------------
# shrinking
# --------------------------------------------------------------------------------------
def shrink_case(prop, known, rec, budget=300):
    best = rec
    improved = True
    n = 0
    while improved and n < budget:
        improved = False
        for cand in prop.shrink(best["case"]):
            n += 1
            if n > budget:
                break
            r = evaluate(prop, [cand], with_model=False)[0]
            if r["spec"] and not r.get("oracle_crash") and not excused(prop, known, r):
                best = r
                improved = True
                break
    return best


# --------------------------------------------------------------------------------------
# main run
# --------------------------------------------------------------------------------------
def write_replay(pid_, seed, payload, tag=""):
    d = os.path.join(VERIF, "replays")
    os.makedirs(d, exist_ok=True)
    path = os.path.join(d, "%s-%s%s.json" % (pid_, seed, tag))
    with open(path, "w") as fh:
        json.dump(payload, fh, indent=1, default=str)
    return os.path.relpath(path, VERIF)


def run_check(pid_, tier, seed):
    t0 = time.time()
    prop = load_prop(pid_)
    with _Silence():
        prop.setup()
    rng = random.Random(seed * 1000003 + int(pid_[1:]))
    known = load_known(pid_)
    notes = []
    violations = []        # (replay payload, suffix)

    # ---- build + audit
    ok_build, build_log, build_s = ensure_build()
    if not ok_build:
        notes.append("lake build failed")
    audit_res, forbidden, cached = ({}, [], False)
    tie_log = None
    if ok_build:
        tie_ok, tl = build_ties(prop)
        if not tie_ok:
            tie_log = tl or "failed"
            notes.append("tie modules %s do not build against the current source" % ", ".join(prop.tie_modules))
        audit_res, forbidden, cached = audit(prop, use_cache=(tier == "quick"), tie_broken=tie_log)
    discharged = sum(1 for t in prop.theorems if audit_res.get(t[1], {}).get("ok"))
    proof_ok = ok_build and discharged == len(prop.theorems) and not forbidden
    checker_note = ""
    if tier == "thorough" and ok_build:
        mods = sorted({t[0] for t in prop.theorems if not (tie_log and t[0] in prop.tie_modules)})
        if mods:
            okc, logc = leanchecker(mods)
            checker_note = "leanchecker %s: %s" % (" ".join(mods), "ok" if okc else "FAILED " + logc[-300:])
            if not okc:
                proof_ok = False

    # ---- known findings replayed on the real code
    for e in known:
        if e.get("status") != "finding":
            continue
        r = evaluate(prop, [e["witness"]], with_model=False)[0]
        if r["spec"]:
            say("KNOWN-FINDING: property=%s %s" % (pid_, e.get("what_fails", e.get("class"))))
        else:
            say("note: listed finding '%s' no longer reproduces on its witness" % e.get("class"))

    # ---- correspondence + transfer
    corpus = prop.corpus()
    gen = list(prop.cases(rng, tier))
    cases = corpus + gen
    recs = []
    corr_broken = None
    if ok_build:
        try:
            recs = evaluate_parallel(pid_, cases, with_model=True)
        except Exception as e:
            corr_broken = "driver/correspondence machinery failed: %r" % e
            recs = evaluate_parallel(pid_, cases, with_model=False)
    else:
        recs = evaluate_parallel(pid_, cases, with_model=False)

    # ---- the code is not the code the committed checks were validated on: sample deeper.
    # (Not a violation by itself. The quick tier's generators are sized for the every-change run on a
    # known tree; a changed source is exactly when more of the input space should be visited.)
    changed = changed_sources() if tier == "quick" else None
    extra_cases = 0
    if changed and not os.environ.get("VERIF_NO_ESCALATE"):
        budget = float(os.environ.get("VERIF_ESCALATE_BUDGET", "75"))
        k = 0
        last = time.time() - t0           # the first batch is the yardstick for one more round
        while time.time() - t0 + last < budget and k < 12:
            if any(r["spec"] and not r.get("crash") and not excused(prop, known, r) for r in recs):
                break
            k += 1
            rng_k = random.Random((seed + 7919 * k) * 1000003 + int(pid_[1:]))
            more = list(prop.cases(rng_k, tier))
            t1 = time.time()
            try:
                recs += evaluate_parallel(pid_, more, with_model=ok_build and not corr_broken)
            except Exception as e:
                corr_broken = "driver/correspondence machinery failed: %r" % e
                recs += evaluate_parallel(pid_, more, with_model=False)
            extra_cases += len(more)
            last = time.time() - t1
        notes.append("tracklib sources differ from the validated snapshot (%s): %d extra cases from %d more seeds" % (
            ", ".join(changed[:6]) + (" ..." if len(changed) > 6 else ""), extra_cases, k))
        say("note: %s" % notes[-1])

    crashes = [r for r in recs if r.get("crash")]
    if crashes:
        say("harness error: oracle crashed on %s: %s" % (json.dumps(crashes[0]["case"])[:300], crashes[0]["spec"]))
        return 2
    spec_fail = [r for r in recs if r["spec"]]
    corr_fail = [r for r in recs if r["corr"]]
    unexcused = [r for r in spec_fail if not excused(prop, known, r)]

    # counts for the evidence
    seen = set()
    nt = 0
    hist = {}
    for r in recs:
        k = case_key(r["case"])
        if k not in seen:
            seen.add(k)
            if r["nt"]:
                nt += 1
        for tk, tv in (r.get("tags") or {}).items():
            hist.setdefault(tk, {})
            hist[tk][str(tv)] = hist[tk].get(str(tv), 0) + 1

    if unexcused:
        full = evaluate(prop, [unexcused[0]["case"]], with_model=ok_build)[0]
        best = shrink_case(prop, known, full)
        path = write_replay(pid_, seed, {"property": pid_, "kind": "failing-input", "case": best["case"],
                                         "what_fails": best["spec"], "impl_output": best["impl"],
                                         "original_case": unexcused[0]["case"], "others": len(unexcused) - 1})
        violations.append((path, ""))
    elif corr_fail or not proof_ok or corr_broken:
        # the proof or the tie is broken: search for a concrete failing input on the real code
        found = None
        srng = random.Random(seed + 7919)
        cand = []
        for r in corr_fail[:50]:
            cand += list(prop.mutate(r["case"], srng))
        if corr_fail or tie_log:
            cand += list(prop.search_cases(srng))
        # the search is bounded in time (VERIF_SEARCH_BUDGET seconds, default 150): candidates are evaluated in
        # chunks, neighbours of the disagreeing inputs first, until one fails the oracle or the budget is used up
        sbudget = float(os.environ.get("VERIF_SEARCH_BUDGET", "150"))
        ts = time.time()
        searched = 0
        for a in range(0, len(cand), 4000):
            sr = evaluate_parallel(pid_, cand[a:a + 4000], with_model=False)
            searched += len(sr)
            for r in sr:
                if r["spec"] and not r.get("crash") and not excused(prop, known, r):
                    found = r
                    break
            if found or time.time() - ts > sbudget:
                break
        cand = cand[:searched]
        if found:
            full = evaluate(prop, [found["case"]], with_model=False)[0]
            best = shrink_case(prop, known, full)
            path = write_replay(pid_, seed, {"property": pid_, "kind": "failing-input (found by search after a broken %s)" % ("correspondence" if corr_fail else "proof"),
                                             "case": best["case"], "what_fails": best["spec"], "impl_output": best["impl"]})
            violations.append((path, ""))
        else:
            broken = []
            if not ok_build:
                broken.append({"what": "lake build", "log": build_log[-1500:]})
            if tie_log:
                broken.append({"what": "tie between generated definitions (tools/py2lean.py on the current source) and the model: " + ", ".join(prop.tie_modules),
                               "log": tie_log[-1500:]})
            for t in prop.theorems:
                a = audit_res.get(t[1])
                if ok_build and (a is None or not a["ok"]):
                    broken.append({"what": "theorem " + t[1], "why": (a or {}).get("why", "not audited")})
            for h in forbidden:
                broken.append({"what": "forbidden token", "where": h})
            if checker_note and "FAILED" in checker_note:
                broken.append({"what": "leanchecker", "log": checker_note})
            if corr_broken:
                broken.append({"what": "correspondence machinery", "why": corr_broken})
            for r in corr_fail[:5]:
                broken.append({"what": "correspondence", "stream": (r.get("tags") or {}).get("kind", "?"),
                               "first_disagreeing_input": r["case"], "disagreement": r["corr"]})
            path = write_replay(pid_, seed, {"property": pid_, "kind": "no-failing-input-found",
                                             "no_longer_checks": broken,
                                             "disagreements": len(corr_fail), "searched_cases": len(cand)}, "-nofail")
            violations.append((path, " no-failing-input-found"))

    # ---- evidence
    samples = [r["case"] for r in recs[:2]] + [r["case"] for r in recs[len(recs) // 2: len(recs) // 2 + 1]] + [r["case"] for r in recs[-1:]]
    names = [t[1] for t in prop.theorems]
    evidence = {
        "property_id": pid_, "tier": tier, "seed": seed, "level": "proof",
        "coverage": {
            "obligations": len(prop.theorems), "discharged": discharged,
            "checker_cmd": "cd lean && lake build && lake env lean .lake/audit_%s.lean  (# print axioms of every registered theorem)%s" % (
                pid_, "; lake env leanchecker <property modules>" if tier == "thorough" else ""),
            "trusted_base": [
                "Lean 4.33.0 kernel/elaborator; Mathlib v4.33.0 lemmas imported by the proof files",
                "axioms allowed: propext, Classical.choice, Quot.sound (audited: %s)" % ("cached result for unchanged Lean sources" if cached else "re-run now"),
                "hand-written model <-> /repo tie = this run's correspondence check (bounded by the generators below)",
                "CPython, numpy and libm semantics; IEEE-754 rounding is outside the theorems (sampled by the transfer check)",
            ] + list(prop.trusted),
            "theorems": [{"name": t[1], "module": t[0], "says": t[2], "axioms": audit_res.get(t[1], {}).get("axioms"),
                          "ok": audit_res.get(t[1], {}).get("ok", False)} for t in prop.theorems],
            "partial_theorems": prop.partial, "open_statements": prop.open_statements,
            "modelled_code": prop.modelled,
            "leanchecker": checker_note,
            "evaluations": len(recs), "distinct_nontrivial": nt, "rule": prop.rule,
            "samples": samples,
            "traces_validated_against_impl": len(recs) if ok_build and not corr_broken else 0,
            "correspondence_disagreements": len(corr_fail),
            "transfer_failures": len(spec_fail), "transfer_failures_in_known_classes": len(spec_fail) - len(unexcused),
            "corpus_cases": len(corpus),
            "sources_changed_since_validation": changed or [],
            "extra_cases_after_source_change": extra_cases,
            "exhaustive": bool(prop.exhaustive_scopes(tier)),
            "exhaustive_scopes": prop.exhaustive_scopes(tier),
            "input_distribution": hist,
            "build_s": round(build_s, 2),
        },
        "assumptions": ["models are hand-written; see DESIGN.md section 4 (trusted base)"] + notes,
        "wall_s": round(time.time() - t0, 2),
        "violations": len(violations),
    }
    os.makedirs(os.path.join(VERIF, "evidence"), exist_ok=True)
    with open(os.path.join(VERIF, "evidence", pid_ + ".json"), "w") as fh:
        json.dump(evidence, fh, indent=1, default=str)

    say("%s tier=%s seed=%d theorems=%d/%d cases=%d nontrivial=%d corr_disagree=%d transfer_fail=%d (known-class %d) wall=%.1fs" % (
        pid_, tier, seed, discharged, len(prop.theorems), len(recs), nt, len(corr_fail), len(spec_fail),
        len(spec_fail) - len(unexcused), time.time() - t0))
    for path, suffix in violations:
        say("VIOLATION property=%s replay=%s%s" % (pid_, path, suffix))
    return 1 if violations else 0


def run_replay(pid_, path):
    prop = load_prop(pid_)
    with _Silence():
        prop.setup()
    with open(path if os.path.isabs(path) else os.path.join(VERIF, path)) as fh:
        payload = json.load(fh)
    if payload.get("kind") == "no-failing-input-found":
        say("replay: this file names what no longer checks; no concrete failing input was found:")
        say(json.dumps(payload.get("no_longer_checks"), indent=1)[:3000])
        ok_build, _, _ = ensure_build()
        tie_ok, tl = build_ties(prop) if ok_build else (True, "")
        res, forb, _ = audit(prop, use_cache=False, tie_broken=(None if tie_ok else (tl or "failed"))) if ok_build else ({}, [], False)
        bad = [n for n, a in res.items() if not a["ok"]]
        again = []
        for b in payload.get("no_longer_checks", []):
            if b.get("what") == "correspondence":
                r = evaluate(prop, [b["first_disagreeing_input"]], with_model=ok_build)[0]
                if r["corr"]:
                    again.append(r["corr"])
        say("now: build=%s failing_theorems=%s forbidden=%s disagreements_reproduced=%d" % (ok_build, bad, forb, len(again)))
        return 1 if (not ok_build or bad or forb or again) else 0
    case = payload["case"]
    ok_build, _, _ = ensure_build()
    r = evaluate(prop, [case], with_model=ok_build)[0]
    say("case: " + json.dumps(case))
    say("implementation output: " + json.dumps(r["impl"], default=str)[:2000])
    if ok_build:
        say("model output: " + json.dumps(r["model"], default=str)[:2000])
        say("correspondence: " + (r["corr"] or "agree"))
    say("property oracle on the implementation's output: " + (r["spec"] or "holds"))
    if r["spec"]:
        say("VIOLATION property=%s replay=%s" % (pid_, path))
        return 1
    return 0


def main(argv):
    import argparse
    ap = argparse.ArgumentParser()
    ap.add_argument("prop")
    ap.add_argument("--tier", default=os.environ.get("VERIF_TIER", "quick"), choices=["quick", "thorough"])
    ap.add_argument("--seed", type=int, default=int(os.environ.get("VERIF_SEED", "0") or 0))
    ap.add_argument("--replay")
    a = ap.parse_args(argv)
    pid_ = a.prop.upper()
    try:
        if a.replay:
            return run_replay(pid_, a.replay)
        return run_check(pid_, a.tier, a.seed)
    except SystemExit:
        raise
    except BaseException:
        sys.stdout, sys.stderr = _real_stdout, _real_stderr
        traceback.print_exc()
        say("harness error (exit 2)")
        return 2


if __name__ == "__main__":
    sys.exit(main(sys.argv[1:]))
