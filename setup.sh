#!/bin/bash
# Build the Lean library (models, lemmas, property theorems), the native model driver, and the tie modules
# (definitions translated from /repo's current source by tools/py2lean.py + their equality proofs). Offline.
set -e
DIR="$(cd "$(dirname "${BASH_SOURCE[0]}")" && pwd)"
/venv/bin/python "$DIR/tools/gen_lean_roots.py"
/venv/bin/python "$DIR/tools/py2lean.py" --repo "${TRACKLIB_REPO:-/repo}"
cd "$DIR/lean"
lake build
test -x .lake/build/bin/tvdriver
if ls TracklibVerif/Tie/*.lean >/dev/null 2>&1; then
  for f in TracklibVerif/Tie/*.lean; do
    lake build "TracklibVerif.Tie.$(basename "$f" .lean)"
  done
fi
echo "setup ok"
