#!/bin/bash
# Build the Lean library (models, lemmas, property theorems) and the native model driver. Offline.
set -e
DIR="$(cd "$(dirname "${BASH_SOURCE[0]}")" && pwd)"
/venv/bin/python "$DIR/tools/gen_lean_roots.py"
cd "$DIR/lean"
lake build
test -x .lake/build/bin/tvdriver
echo "setup ok"
