#!/venv/bin/python
"""Self-test of the failing-input search on the UNCHANGED tree: the candidates the engine would evaluate after a broken
proof / correspondence (mutate() of generated cases and search_cases()) must not fail the oracle on correct code —
otherwise a harmless change that only breaks the correspondence would be reported with a bogus failing input.

    tools/selftest_search.py C07 [seconds]        exit 0 = no unexcused oracle failure among the candidates
"""
import sys, os, random, time, json
sys.dont_write_bytecode = True
V = os.path.dirname(os.path.dirname(os.path.abspath(__file__)))
sys.path.insert(0, os.path.join(V, "harness"))
import engine

pid = sys.argv[1].upper()
budget = float(sys.argv[2]) if len(sys.argv) > 2 else 150.0
prop = engine.load_prop(pid)
with engine._Silence():
    prop.setup()
known = engine.load_known(pid)
rng = random.Random(12345)
base = list(prop.cases(rng, "quick"))
srng = random.Random(7919)
cand = []
for c in base[::max(1, len(base) // 300)][:300]:
    try:
        cand += list(prop.mutate(c, srng))
    except Exception as e:
        print("mutate() raised %r on %s" % (e, json.dumps(c)[:200])); sys.exit(2)
n_mut = len(cand)
cand += list(prop.search_cases(srng))
t0 = time.time(); bad = []; done = 0
for a in range(0, len(cand), 4000):
    rs = engine.evaluate_parallel(pid, cand[a:a + 4000], with_model=False)
    done += len(rs)
    for r in rs:
        if r.get("crash") or (r["spec"] and not engine.excused(prop, known, r)):
            bad.append(r)
    if bad or time.time() - t0 > budget:
        break
print("%s search self-test: %d candidates evaluated (%d from mutate()), %d unexcused oracle failures / crashes" % (pid, done, min(n_mut, done), len(bad)))
for r in bad[:3]:
    print("  case:", json.dumps(r["case"])[:600]); print("  says:", str(r["spec"])[:400])
sys.exit(1 if bad else 0)
