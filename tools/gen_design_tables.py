#!/venv/bin/python
"""Regenerates the generated part of DESIGN.md (between the GENERATED markers): per-property theorem
tables from harness/props/*.py, the defect table from known_findings.json and the seeded-change table
from seeded/*/meta.json."""
import sys, os, json, glob, re
sys.dont_write_bytecode = True
V = os.path.dirname(os.path.dirname(os.path.abspath(__file__)))
sys.path.insert(0, os.path.join(V, "harness"))
sys.path.insert(0, "/repo")
import engine

out = []
props = [json.loads(l) for l in open(os.path.join(V, "properties.jsonl"))]
out.append("### G.1 Registered theorems, model files and open statements per property\n")
out.append("(generated from `harness/props/*.py`; every theorem listed is audited on every run: it must exist, compile, and depend only on `propext`, `Classical.choice`, `Quot.sound`)\n")
tot = 0
for p in props:
    pid = p["id"]
    if not os.path.exists(os.path.join(V, "harness", "props", pid.lower() + ".py")):
        continue
    P = engine.load_prop(pid)
    tot += len(P.theorems)
    out.append("\n**%s — %s** (%d theorems). Modelled: %s\n" % (pid, p["title"], len(P.theorems), P.modelled))
    for mod, name, says in P.theorems:
        out.append("- `%s` — %s" % (name, says))
    if P.partial:
        out.append("- *partial*: " + "; ".join(P.partial))
    if P.open_statements:
        out.append("- *not proved (correspondence + sampling only)*: " + "; ".join(P.open_statements))
out.append("\nTotal registered theorems: %d.\n" % tot)

kf = json.load(open(os.path.join(V, "known_findings.json")))
out.append("\n### G.2 Defects of tracklib found by the checks\n")
out.append("| property | status | commit / class | what failed |\n|---|---|---|---|")
for e in kf["entries"]:
    what = (e.get("what_failed") or e.get("what_fails") or "").replace("|", "\\|").replace("\n", " ")
    if len(what) > 260:
        what = what[:257] + "..."
    out.append("| %s | %s | %s | %s |" % (e["property"], e["status"], e.get("commit") or ("class `%s`" % e.get("class")), what))

out.append("\n### G.3 Independently seeded changes and which check catches them\n")
out.append("Rows marked property-PRESERVING (rounds 4 to 6: `-8`, `-10`, `-12`) are changes of behaviour under which the property still holds for every input: the check must not report a failing input for them (exit 0, or `no-failing-input-found` when the correspondence breaks). "
           "Each change was written by a sub-agent that saw only the property text and a scratch worktree (nothing from /verif), "
           "confirmed here (demo passes on the clean tree, fails with the patch, 243 baseline tests still pass), then the property's check was run against the patched tree. "
           "`history` in `seeded/<id>/meta.json` keeps earlier runs, including the misses that led to a strengthened harness.\n")
out.append("| seeded change | valid | caught by | failing input reported | first result (before strengthening) |\n|---|---|---|---|---|")
for d in sorted(glob.glob(os.path.join(V, "seeded", "*"))):
    mp = os.path.join(d, "meta.json")
    if not os.path.exists(mp):
        continue
    m = json.load(open(mp))
    hist = m.get("history", [])
    first = ""
    if hist:
        first = "caught" if hist[0].get("caught") else "MISSED"
    what = ""
    rp = m.get("replay") or {}
    if rp.get("what_fails"):
        what = str(rp["what_fails"]).replace("|", "\\|").replace("\n", " ")[:150]
    elif rp.get("kind"):
        what = rp["kind"]
    sup = os.path.join(d, "superseded.md")
    if os.path.exists(sup):
        out.append("| %s | no longer | n/a | %s | %s |" % (m["name"], open(sup).read().strip().replace("\n", " ").replace("|", "\\|")[:400], first))
        continue
    if m.get("kind") == "preserving":
        verdict = ("**FALSE ALARM** (failing input reported)" if m.get("caught_with_failing_input") else
                   ("no alarm: `no-failing-input-found` (the correspondence or a tie breaks: allowed)" if m.get("caught") else "no alarm: exit 0"))
        title = ""
        try:
            title = open(os.path.join(d, "notes.md")).read().split("\n")[0].lstrip("# ").strip()[:110]
        except Exception:
            pass
        out.append("| %s (property-PRESERVING) | %s | %s | %s | %s |" % (m["name"], "yes" if m.get("valid_seed") else "NO", verdict, title.replace("|", "\\|"), ""))
        continue
    out.append("| %s | %s | %s | %s | %s |" % (m["name"], "yes" if m.get("valid_seed") else "NO", ("`./check %s` (quick)" % m["property"]) if m.get("caught") else "**not caught**", what, first))

text = "\n".join(out) + "\n"
p = os.path.join(V, "DESIGN.md")
s = open(p).read()
b, e = "<!-- BEGIN GENERATED -->", "<!-- END GENERATED -->"
if b in s and e in s:
    s = s[:s.index(b) + len(b)] + "\n" + text + s[s.index(e):]
else:
    s += "\n\n## Part G — generated tables\n\n" + b + "\n" + text + e + "\n"
open(p, "w").write(s)
print("DESIGN.md tables regenerated: %d theorems" % tot)
