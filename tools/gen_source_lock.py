#!/venv/bin/python
"""Records the digest of every tracklib source file as validated by the committed checks (source_lock.json).

The engine compares /repo's working tree with this snapshot on every run. A difference is NOT a
violation (a harmless rewrite changes it too); it only tells the engine that the code is no longer the
code the generators were last tuned on, and the quick tier then samples deeper (extra seeds within a time
budget). Regenerate after every `fix:` commit in /repo, once all 20 quick checks pass on it:
    tools/gen_source_lock.py
"""
import sys, os, json
sys.dont_write_bytecode = True
V = os.path.dirname(os.path.dirname(os.path.abspath(__file__)))
sys.path.insert(0, os.path.join(V, "harness"))
import engine

lock = engine.source_digests(engine.REPO)
head = os.popen("git -C %s rev-parse HEAD" % engine.REPO).read().strip()
json.dump({"repo_head": head, "files": lock}, open(os.path.join(V, "source_lock.json"), "w"), indent=0, sort_keys=True)
print("source_lock.json: %d files at %s" % (len(lock), head[:7]))
