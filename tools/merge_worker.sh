#!/bin/bash
# merge a worker clone: tools/merge_worker.sh <name>   (evidence/MANIFEST conflicts resolved in favour of ours, regenerated later)
set -e
cd /verif
git pull -q --no-edit --no-rebase -X ours /root/agents/$1/verif main 2>&1 | tail -3
git log --oneline | head -2
