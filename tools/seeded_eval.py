#!/venv/bin/python
"""Evaluate one seeded change (written by an independent sub-agent) against a check.

    tools/seeded_eval.py <property id> <dir with patch.diff demo.py notes.md> <name> [--in-repo] [--tier quick|thorough]

1. in a scratch worktree of /repo: demo passes on the clean tree, fails with the patch, the baseline
   suite still gives 243 passed with the patch;
2. runs ./check <id> against the patched tree: by default against the scratch worktree through
   TRACKLIB_REPO (safe while other work uses /repo); with --in-repo the patch is applied to /repo itself
   (git apply), the check is run, and the patch is undone straight afterwards (git checkout -- .);
3. stores patch.diff, demo.py, notes.md and meta.json under /verif/seeded/<name>/.
"""
import sys, os, subprocess, json, shutil, re, time

V = os.path.dirname(os.path.dirname(os.path.abspath(__file__)))


def sh(cmd, cwd=None, env=None, timeout=3600):
    p = subprocess.run(cmd, shell=True, cwd=cwd, env=env, stdout=subprocess.PIPE, stderr=subprocess.STDOUT, text=True, timeout=timeout)
    return p.returncode, p.stdout


def main():
    args = [a for a in sys.argv[1:] if not a.startswith("--")]
    pid, src, name = args[0], args[1], args[2]
    in_repo = "--in-repo" in sys.argv
    tier = "thorough" if "--tier=thorough" in sys.argv else "quick"
    skip_tests = "--skip-tests" in sys.argv
    wt = "/tmp/seedeval/%s" % name
    os.makedirs("/tmp/seedeval", exist_ok=True)
    sh("git -C /repo worktree remove --force %s" % wt)
    rc, out = sh("git -C /repo worktree add -q --detach %s HEAD" % wt)
    assert rc == 0, out
    meta = {"name": name, "property": pid, "source": src}
    try:
        env = dict(os.environ, PYTHONPATH=wt, PYTHONDONTWRITEBYTECODE="1")
        demo = os.path.join(src, "demo.py")
        rc0, out0 = sh("/venv/bin/python -W ignore %s" % demo, cwd=wt, env=env, timeout=600)
        meta["demo_on_clean_tree"] = {"exit": rc0, "tail": out0[-300:]}
        rc, out = sh("git apply %s" % os.path.join(src, "patch.diff"), cwd=wt)
        meta["patch_applies"] = rc == 0
        if rc != 0:
            meta["error"] = out[-500:]
            return meta
        rc1, out1 = sh("/venv/bin/python -W ignore %s" % demo, cwd=wt, env=env, timeout=600)
        meta["demo_on_patched_tree"] = {"exit": rc1, "tail": out1[-500:]}
        if not skip_tests:
            rc, out = sh("/venv/bin/python -W ignore -m pytest -q -p no:cacheprovider --timeout=900 --continue-on-collection-errors 2>&1 | tail -3", cwd=wt, env=env, timeout=1800)
            m = re.search(r"(\d+) passed", out)
            meta["baseline_with_patch"] = {"passed": int(m.group(1)) if m else None, "tail": out.strip()[-200:]}
        # run the check
        t0 = time.time()
        if in_repo:
            rc, out = sh("git -C /repo status --short --untracked-files=no")
            assert out.strip() == "", "/repo is not clean: " + out
            rc, out = sh("git -C /repo apply %s" % os.path.join(src, "patch.diff"))
            assert rc == 0, out
            try:
                rcc, outc = sh("./check %s --tier %s" % (pid, tier), cwd=V, timeout=7200)
            finally:
                sh("git -C /repo checkout -- .")
            meta["how"] = "git -C /repo apply; ./check %s --tier %s; git -C /repo checkout -- ." % (pid, tier)
        else:
            rcc, outc = sh("./check %s --tier %s" % (pid, tier), cwd=V, env=dict(os.environ, TRACKLIB_REPO=wt), timeout=7200)
            meta["how"] = "TRACKLIB_REPO=<scratch worktree with the patch> ./check %s --tier %s" % (pid, tier)
        lines = [l for l in outc.split("\n") if l.startswith("VIOLATION") or l.startswith(pid)]
        meta["check"] = {"exit": rcc, "wall_s": round(time.time() - t0, 1), "lines": lines, "tail": outc[-600:]}
        m = re.search(r"replay=(\S+)", outc)
        if m and os.path.exists(os.path.join(V, m.group(1))):
            with open(os.path.join(V, m.group(1))) as fh:
                rp = json.load(fh)
            meta["replay"] = {k: rp.get(k) for k in ("kind", "case", "what_fails", "no_longer_checks") if k in rp}
        meta["valid_seed"] = bool(rc0 == 0 and rc1 != 0 and (skip_tests or meta["baseline_with_patch"]["passed"] == 243))
        meta["caught"] = bool(rcc == 1 and any(l.startswith("VIOLATION property=%s " % pid) for l in lines))
        meta["caught_with_failing_input"] = meta["caught"] and not any("no-failing-input-found" in l for l in lines)
    finally:
        sh("git -C /repo worktree remove --force %s" % wt)
        dst = os.path.join(V, "seeded", name)
        os.makedirs(dst, exist_ok=True)
        for f in ("patch.diff", "demo.py", "notes.md"):
            if os.path.exists(os.path.join(src, f)):
                shutil.copy(os.path.join(src, f), os.path.join(dst, f))
        old = {}
        if os.path.exists(os.path.join(dst, "meta.json")):
            try:
                old = json.load(open(os.path.join(dst, "meta.json")))
            except Exception:
                pass
        hist = old.get("history", [])
        if old.get("check"):
            hist.append({"check": old.get("check"), "caught": old.get("caught"), "how": old.get("how")})
        meta["history"] = hist
        json.dump(meta, open(os.path.join(dst, "meta.json"), "w"), indent=1)
    return meta


if __name__ == "__main__":
    m = main()
    print(json.dumps({k: m.get(k) for k in ("name", "valid_seed", "caught", "caught_with_failing_input")}))
    if m.get("check"):
        print("\n".join(m["check"]["lines"]))
