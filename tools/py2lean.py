#!/venv/bin/python
"""py2lean: translate a whitelisted set of pure tracklib functions from /repo's CURRENT source into Lean 4
definitions (lean/TracklibVerif/Gen/*.lean), regenerated on every run.

    tools/py2lean.py [--repo /repo] [--out DIR] [--print]          (self-test: tools/py2lean_selftest.py)

The generated definitions are tied to the hand-written models by equality theorems in
lean/TracklibVerif/Tie/Cnn.lean; when a translated function changes, the generated Lean changes and the
committed equality proof no longer compiles (the engine then reports the broken tie and searches for an input).
A file is rewritten only when its content changes. Exit code 0 unless the tool itself is broken.

WHAT IS TRANSLATED.  One Python function (module level, or "Class.method") -> one Lean
`def NAME ... : Py.M τ` (`Py.M = Except Py.Err`, lean/TracklibVerif/Model/PyPrelude.lean). The map is directed
by the syntax of the function's `ast`: one rule per node kind; a rule looks at its node, the types of its sub-terms
and the declared signature (WHITELIST below), nothing else; there is no per-function code. ALL semantic choices
(what `/`, `==`, `math.fabs`, `L[k]` ... mean) are the definitions of PyPrelude.lean; this file only decides WHICH of
them a node is, from the Python types:  float -> `α` (abstract scalar), int -> `Int`, bool -> `Bool`,
list[float] -> `List α`, tuple[..] -> product, optional[τ] -> `Option τ` (a function with `return None` on some
path), object[C] -> the tuple of the attributes of class C in constructor order. Types are only used to choose the
operation; a wrong choice makes the generated file (or the tie) fail to type-check — it cannot make a tie true.

THE DECLARED SIGNATURE of a function gives: the type of every parameter; the return type; optionally the type
(int / float) of a local that is bound to a bare integer literal (`xb = 0`); for an object parameter a dict:
  {"attr": type, "getter()": type, ...}                  only these attributes / argument-less accessors are read;
                                                          each is ONE Lean parameter `<param>_<attr>`; an accessor is
                                                          ASSUMED to be a pure getter (it is not translated);
                                                          "getter()": "object[C]" = one parameter per attribute of C
  {"__class__": "C", "attr": "float", ...}               an instance of class C of the same file: in addition its
                                                          methods and `+`/`-` are resolved STATICALLY to C's (translated)
                                                          methods — assumes the run-time object is not of a subclass
                                                          overriding them.

ACCEPTED SUBSET (anything else: the function is NOT emitted, the reason is written as a comment in the
generated file, exit code stays 0, and every tie theorem that mentions it stops compiling — never a guess):

  statements   x = e | x, y = e (tuple) | x op= e | if/elif/else | return e | return | pass | docstring |
               x.append(e) / x.remove(e) for a list x created in this function by list() / [] / [..] |
               x = C(a, ..) / x = <object-valued call> (LOCAL OBJECT, below) | x.attr = e | x.attr op= e |
               print(...) (dropped; strings are opaque, below) |
               for i in range(a[, b[, step]]): … | for x in L: … (L a list variable the body does not modify) |
               while c: … | while True: … | while 1: … | break | continue          (LOOPS, below) |
               for k, x in enumerate(L): … | L[i] = e / L[i] op= e on a list of numbers created in this function (by a display or
               `[c] * n`) | T[i, j] = e on a table created by np.zeros | raise E(…) | x = lambda p: e (LAMBDAS, below) |
               the DECLARED statement forms of the third generation (FEATURE COLUMNS, WRITE LOG, DECLARED COLLECTIONS, below)
  expressions  names, int / float / bool literals, unary - + not, + - * / on floats (int operands converted),
               + - * // % >> on ints, ** and pow(x, y) with a float operand (uninterpreted `pow`), comparisons (chains of
               two), `x in L` / `x not in L` (x an int or a tuple of ints), and / or / & / | on bools, e1 if c else e2,
               L[k] (k a literal >= 0) on a list or a tuple, L[e] (e any int expression) on a list, len(L), tuples,
               list displays, math.sqrt/sin/cos/tan/atan/atan2/exp/log/floor and math.pi/inf/nan (uninterpreted parameters),
               float("nan") / float("inf") / a literal that overflows such as 1e400 (parameters `nan`, `inf`),
               math.fabs, abs, min/max of numbers (n-ary; CPython's "first among equals"), float(x), int(x) (uninterpreted
               `trunc` on a float), x.is_integer(), declared attributes / accessors of object parameters, attributes of
               local objects, module constants, class constants `C.NAME`, calls of other whitelisted functions / methods of
               the same file, calls DECLARED to be the identity on a list (`assume_identity`, below),
               `[c] * n` (Py.replicate), `b * x` with b a bool and x a float (True is 1), `sys.float_info.max` (parameter `dblmax`),
               `x != None` / `x is not None` / `x == None` / `x is None` on a number / bool / list (constant: such a value is not None;
               for a PARAMETER this is part of its declared type), `range(a[, b])` as a value (the list of its ints),
               `T[i, j]`, `T.shape[0]`, `np.zeros((r, c))` on TABLES, `p.name(args)` for a DECLARED accessor with arguments of an
               object parameter, `self.m(args)` in a method (the translated method of the same class on the same declared object),
               a call of a local bound to a lambda.
  NOT accepted comprehensions, recursion, slices, subscript assignment into a parameter, try, with, global, for/while ... else, starred /
               keyword arguments, omitted (defaulted) arguments except in a constructor call, truthiness of non-bools
               (except `while 1`), a name that may be unbound unless it is DECLARED `unbound[τ]`, a function that can fall
               off its end unless its return type is optional, an object used as a plain value (alias, argument of an
               untranslated call), stores into a parameter's attributes, iteration over a list the body modifies, reading the
               loop variable after its loop.

TRANSLATION RULES (⟦·⟧ on statement lists gives a term of type `Py.M τ`):
  ⟦return e ; _⟧            = B(e, v => .ok v)                (statements after a return are unreachable)
  ⟦x = e ; rest⟧            = B(e, v => let x := v; ⟦rest⟧)       (re-assignment = shadowing)
  ⟦if c: A else: B ; rest⟧  = B(c, v => if v then ⟦A ; rest⟧ else ⟦B ; rest⟧)      (rest is duplicated; each path
                              has its own environment: a name not bound on the path is refused, not guessed)
  ⟦[]⟧                      = .ok none   if the return type is optional, otherwise not accepted
  B(e, k) evaluates e: every sub-expression that can raise (float `/`, int `//` `%` by a non-literal, `L[k]`, a
  call of a translated function) is bound to a fresh name `py_tN` with `Py.bind`, in Python's evaluation
  order (left operand before right operand, arguments left to right), the remaining pure expression is
  rendered fully parenthesised. `a and b` / `a or b` / `x if c else y` whose later operands can raise are
  bound as one conditional (`if a then ⟦b⟧ else .ok false`), so nothing is evaluated that Python would skip.
  `/`, `//`, `%` by a non-zero numeric LITERAL (or a module constant defined as one) cannot raise and are
  rendered as the plain operation.
  MODULE CONSTANT: a name that is neither a parameter nor assigned in the function, bound exactly once at module level,
  never declared `global`, whose defining expression is literal arithmetic (or float("nan") / float("inf")): that expression is
  inlined (a rebinding of the module attribute from outside the file at run time is not seen).
  CLASS CONSTANT: `C.NAME` for a class C of the file, NAME bound exactly once in the class body to literal arithmetic or a list
  display of literals, and never the target of an attribute store anywhere in the file: inlined likewise.
  LOCAL OBJECT: `x = C(a, b, c)` for a class C of the same file whose `__init__` is exactly one `self.a = p` for each
  parameter p, in any order (checked on the current source; it may be wrapped in `if isinstance(<first parameter>, str): …
  else: <the stores>` — the string form of the constructor is never taken because only numeric arguments are accepted),
  or `x = <call returning object[C]>`: one Lean variable per attribute (`x_a`), of type Int when the parameter is annotated
  `int`, else float; omitted trailing arguments take the literal defaults of `__init__`; `x.p = e`, `x.p op= e`, `x.p`,
  `x.method()` (C.method translated, called with x's attributes) and `return x` are accepted; any other use of `x` (alias,
  argument of an untranslated call) is refused, so no alias can exist.
  STRINGS: `"…"`, `"…".format(…)`, `str(…)`, `+` of strings have the opaque type S; an S can only be bound to a local
  or passed to print; nothing is rendered for them and their sub-expressions are ASSUMED not to raise.

LOOPS.  K, the CONTINUATION CONTEXT, says what `return v`, the end of the statement list, `break`, `continue` produce:
    at function level           return v ↦ .ok v          end ↦ .ok none (optional return type only)      break/continue refused
    in a loop body (state s)    return v ↦ .ok (.ret v)   end, continue ↦ .ok (.cont s)                   break ↦ .ok (.brk s)
  LOOP STATE s of a loop = the tuple of the variables that its body (re)binds (assignment, augmented assignment, nested loop
  targets, lists changed by .append/.remove, one entry per attribute of a local object whose attribute is stored) AND that are
  bound before the loop, in the order in which they were first bound in the function; followed (in alphabetical order) by the body-bound locals DECLARED
  `unbound[τ]` in the signature (carried as `Option τ`, `none` until assigned; reading one is `Py.getBound`: UnboundLocalError).
  A variable bound only inside the body and not declared is local to ONE iteration: reading it at the start of the next
  iteration or after the loop is refused ("not bound on every path"). A state variable must have the same type at the end of the
  body as at its start (declare `x: float` when `x = 0` is later added to floats).
  ⟦for i in range(a, b): B ; rest⟧ = B(a, b, (va, vb) =>
        Py.bind (Py.forList (fun i s => let x₁ := s.1; …; ⟦B⟧_loop) (Py.range va vb) (x₁, …)) fun r =>
        match r with | .ret v => K.return v | .done s => let x₁ := s.1; …; ⟦rest⟧_K)
    `range` is evaluated once, before the loop; `range(a, b, step)` is `Py.rangeStep` (ValueError on step 0);
    `for x in L` passes the list itself. The loop variable is a parameter of the body; it is not readable after the loop.
  ⟦while c: B ; rest⟧ = Py.bind (Py.whileLoop (fun s => let x₁ := s.1; …; B(c, v => if v then ⟦B⟧_loop else .ok (.brk s))) fuel (x₁, …)) …
    with the same `match` after it. `fuel : Nat` is ONE extra parameter of the generated definition (placed after the
    uninterpreted math functions), shared by all its while loops and passed on to translated callees that have one; running out
    of fuel is `.error .fuel`, never a value. `while True:` / `while 1:` have no test.
  ⟦if c: A else: B ; rest⟧ when A, B contain no return/break/continue, rest contains a loop, and every variable A, B bind is
    already bound (or declared `unbound[τ]`): translated WITH A JOIN instead of duplicating rest —
        Py.bind (if c then ⟦A⟧_join else ⟦B⟧_join) fun j => let x₁ := j.1; …; ⟦rest⟧_K      (⟦·⟧_join: end ↦ .ok (x₁, …))
THIRD GENERATION (C11, C15, C12) — each DECLARED form is an ASSUMPTION stated with the tie that uses it:
  ⟦for k, x in enumerate(L): B⟧  = forList over `Py.enumerate L` = [(0, L[0]), (1, L[1]), …]; the body binds k and x from the pair.
  ⟦L[i] = e⟧ = Py.bind (Py.setIdx L i v) fun L => …   (Python's negative indices, IndexError; L must have been created in this function
    by a list display or `[c] * n`, so no alias of it exists; the index expression must be pure). `L[i] op= e` is `L[i] = L[i] op e`.
  ⟦raise E(…)⟧ = .error Py.Err.raised (class and message are not tracked; the arguments are not evaluated).
  IF-JOIN, extended: an `if`/`else` ahead of a loop may also bind a NEW variable when both branches bind it by a plain top-level
    assignment with the same type (`if m == AND: comp = True else: comp = False`); it joins the tuple after the already-bound ones.
  ISINSTANCE, refined: `isinstance(p, C)` is decided from the declared kind of parameter p when p has not been assigned on the path to the
    test (and, inside a loop, nowhere in that loop) — so `if not isinstance(p, list): p = [p]` is dropped for a declared list and
    `if isinstance(kernel, Kernel): … kernel = kernel.toSlidingWindow()` takes its first branch for {"__isinstance__": "Kernel"}.
    Kinds: list[..] / table: list; objlist[..]: Track; `col` / `name`: str; {"__isinstance__": "K"}: class K only.
  LAMBDAS: `f = lambda p: e` is kept as syntax (refused if e reads a name the function assigns); `g = h(f)` for h DECLARED in
    "assume_identity_fn" (np.vectorize: ASSUMED to behave as f on the scalar arguments it is called with) is f; `f(a)` is e with p := a
    (p must be a new name, or a must be the variable p itself). {"assume_true": ["output.shape == ()"]} / {"assume_false": [..]}: an `if`
    whose test is EXACTLY this text takes that branch (the 0-d result of a vectorised call on a scalar; `str(kernel) == 'Dirac kernel'`).
  FEATURE COLUMNS: a parameter of type `col` is a feature NAME seen as the column it designates (`list[col]`: a list of names); for an
    object parameter declared with {"getObsAnalyticalFeature(col,int)": "float"}, `p.getObsAnalyticalFeature(c, i)` is `Py.getIdx c i`
    (ASSUMED: the name is a key of the track's feature table, the column has one value per observation, negative i counts from the end as
    `__POINTS[i]` does, and the column is not changed by the function's own writes — see WRITE LOG). A parameter of type `name` is an
    opaque string that is only passed on: it has no Lean parameter. A key "name(τ1,..)" other than (col,int) declares an UNINTERPRETED pure
    function of the object: one parameter `<param>_<name> : τ1 → .. → ρ` (`self.__kernel_function(x)`).
  WRITE LOG {"write_log": "track.setObsAnalyticalFeature"}: the function has no return statement and its only effect is the calls
    `setter(<name parameter>, i, v)`; each appends (i, v) to `py_log` (a loop-state variable like any other), and the translation returns
    the log (declared return type list[tuple[int,τ]]). ASSUMED: the feature written is not read back by the function at an index it has
    already written (true of segmentation(): observation i is read before it is written, no other index is touched at step i).
  DECLARED COLLECTIONS {"new_list": {"tracklib.TrackCollection": "list[record[Piece]]"}, "append_methods": ["addTrack"]}: this
    constructor call makes an empty list of the declared element type, this method appends to it. {"record_methods": {"length": "float"}}:
    `r.length()` on a record of view V is the UNINTERPRETED function parameter `V_length : <V's tuple> → float` (ASSUMED pure, total).
    {"make": {"track.extract(_, _)": "Piece"}}: a sub-track seen as its two bounds (ASSUMED: extract does not raise on the bounds the loop
    produces; what the piece contains is `Track.extract`'s business — C11's model proves the bounds determine it).
  TABLES: `table[float]` is a 2-D numpy array of floats used as a plain table = the list of its rows: `T.shape[0]` = Py.len,
    `np.zeros((r, c))` = Py.zeros2 (ValueError on a negative dimension), `T[i, j]` = Py.getIdx2, `T[i, j] = e` = Py.setIdx2 on a table created
    in this function (e converted to a float, as a float64 array does). ASSUMED of a table PARAMETER: it is rectangular float64 data.
    {"result_through": ["backward"]}: `return backward(M)` is translated as `return M` — the tie is about the table, what `backward` makes
    of it is outside the translation. {"assume_identity": ["progressbar.progressbar"]} also accepts a dotted function name.
RECORDS AND OBSERVATION LISTS (objects that are only READ; table VIEWS below).  `record[V]`: an object seen through the DECLARED
  access paths of view V (attributes and argument-less accessors, ASSUMED pure): the tuple of those components. `objlist[V]`: a
  Track seen as the list of its observations (`X.getObs(e)`, `X[e]`: Py.getIdx — Python indexing, IndexError; `X.getFirstObs()`,
  `X.getLastObs()`: elements 0 and len-1; `X.size()`, `len(X)`: the length); `list[record[V]]`: a Python list of such objects.
  `r.p.q()` for a record-valued r (a local bound to one, an element of an observation list) and a declared path `p.q()` (possibly
  through a record-valued component into ITS view) is the component. A component of type `object[C]` is an object value: its
  methods and `+`/`-` are resolved statically to C's translated methods, in whichever whitelisted file defines C. A method call /
  `-` on a record is resolved to the translated method of the view's "__class__"; the callee's declared attributes must be
  declared paths of the caller's view, with the same types. A record can be bound to a local, appended to a list, put in a list
  display, passed to such a method, returned inside a list — nothing else (no store into it, no alias of a mutable thing).
  `isinstance(p, C)` on a never-rebound PARAMETER p is decided from p's declared kind (`list[…]` is a list, `objlist[…]` a Track,
  a declared float is "int or float": only the disjunction of both tests is accepted) and an `if` on such a test is replaced by the
  branch taken (this is what makes the VARIANTS of one function under different declared argument types).
DECLARATIONS IN THE SIGNATURE (7th component, a dict, and the `locals` dict) — each is an ASSUMPTION to be read with the tie:
  locals {"x": "float" | "int"}            type of a local bound to a bare integer literal (`somme = 0` later added to floats)
  locals {"x": "list[float]"}              element type of a list created empty (`x = []`) and needed before its first append
  locals {"x": "unbound[float]"}           x may be read before it is assigned (bound only in a branch / a loop body)
  {"assume_identity": ["listify"]}         on a list argument the call returns the argument itself (tracklib's `listify`)
  {"assume_noop": ["Obs.__check_call_geom1"]}   a call statement of this function returns normally and has no effect (an
                                           argument check that only raises for classes outside the declared ones)
  {"assume_identity_methods": ["copy"]}    `r.copy()` on a record is the record (records are values in the translation)
  {"assume_noop_stmts": ["interp_points[0].features = []"]}   this exact statement has no effect on what the function reads later
  {"make": {"Obs(ENUCoords(_, _, _), ObsTime.readUnixTime(_))": "Obs"}}   CONSTRUCTOR PATTERN: an expression of exactly this shape
                                           builds a record of view Obs whose leaves are the hole expressions in order (here the time
                                           component is the ARGUMENT of readUnixTime, the un-stamped instant, as in Model/Resample.lean)
  {"result_call": "track.setObsList"}      the function's only effect is this call, which must be its LAST statement; its
                                           argument is translated as the function's return value
  {"variants": {"prepareTimeSampling": "prepareTimeSampling_number"}}   which of several translations of a callee (same Python
                                           function, different declared argument types) this function's call is
  {"imports": {"f": "util/geometry.py"}}   the name f, which this file binds by exactly one `from … import f` and nowhere else at
                                           module level, IS the whitelisted function f of that file (cross-file call; the generated
                                           module imports the other generated module and calls `TV.Gen.<Module>.f`)
"""
import argparse
import ast
import os
import sys
import warnings

VERIF = os.path.dirname(os.path.dirname(os.path.abspath(__file__)))

# --------------------------------------------------------------------------------------------------------
# Declared signatures: the ONLY per-function input of the translator.
#   (python file under tracklib/, qualified python name, lean name, {param: type}, return type, {local: type}[, {option: ...}])
# The first parameter `self` of a method is not supported (only static methods / functions).
# --------------------------------------------------------------------------------------------------------
WHITELIST = [
    ("util/geometry.py", "cartesienne", "cartesienne", {"segment": "list[float]"}, "list[float]", {}),
    ("util/geometry.py", "__eval", "py__eval", {"param": "list[float]", "x": "float", "y": "float"}, "float", {}),
    ("util/geometry.py", "dist_point_droite", "dist_point_droite", {"param": "list[float]", "x": "float", "y": "float"}, "float", {}),
    ("util/geometry.py", "distance_to_segment", "distance_to_segment",
     {"x0": "float", "y0": "float", "x1": "float", "y1": "float", "x2": "float", "y2": "float"}, "float", {}),
    ("util/geometry.py", "projection_droite", "projection_droite", {"param": "list[float]", "x": "float", "y": "float"},
     "tuple[float,float]", {"xb": "float"}),
    ("util/geometry.py", "proj_segment", "proj_segment", {"segment": "list[float]", "x": "float", "y": "float"},
     "tuple[float,float,float]", {"xb": "float"}),
    ("util/geometry.py", "proj_polyligne", "proj_polyligne", {"Xp": "list[float]", "Yp": "list[float]", "x": "float", "y": "float"},
     "tuple[float,float,float,int]", {"xproj": "unbound[float]", "yproj": "unbound[float]", "iproj": "unbound[int]"}),
    ("util/geometry.py", "triangle_area", "triangle_area",
     {"x0": "float", "y0": "float", "x1": "float", "y1": "float", "x2": "float", "y2": "float"}, "float", {}),
    ("util/geometry.py", "isSegmentIntersects", "isSegmentIntersects", {"segment1": "list[float]", "segment2": "list[float]"}, "bool", {}),
    ("core/obs_time.py", "ObsTime.isLeapYear", "isLeapYear", {"year": "int"}, "bool", {}),
    ("core/obs_time.py", "ObsTime.readUnixTime", "ObsTime_readUnixTime", {"elapsed_seconds": "float"}, "object[ObsTime]",
     {"sec": "int", "year": "int", "month": "int"}),
    ("core/obs_time.py", "ObsTime.__sub__", "ObsTime_sub", {"self": {"toAbsTime()": "float"}, "time": {"toAbsTime()": "float"}}, "float", {}),
    ("core/obs_time.py", "ObsTime.toAbsTime", "ObsTime_toAbsTime",
     {"self": {"year": "int", "month": "int", "day": "int", "hour": "int", "min": "int", "sec": "int", "ms": "int"}}, "float",
     {"seconds": "int"}),
    ("core/track.py", "Track.__getInsertionIndex", "Track_getInsertionIndex", {"self": "objlist[ObsKey]", "timestamp": "int"}, "int",
     {"id": "int"}),
    ("core/spatial_index.py", "SpatialIndex.__getCell", "SpatialIndex_getCell",
     {"self": {"xmin": "float", "xmax": "float", "ymin": "float", "ymax": "float", "dX": "float", "dY": "float",
               "csize": "int", "lsize": "int"},
      "coord": {"getX()": "float", "getY()": "float"}}, "optional[tuple[float,float]]", {}),
    ("core/spatial_index.py", "SpatialIndex.__cellsCrossSegment", "SpatialIndex_cellsCrossSegment",
     {"self": {"csize": "int", "lsize": "int"}, "coord1": "list[float]", "coord2": "list[float]"}, "list[tuple[int,int]]",
     {"CELLS": "list[tuple[int,int]]"}, {"imports": {"isSegmentIntersects": "util/geometry.py"}}),
    ("core/spatial_index.py", "SpatialIndex.groundDistanceToUnits", "SpatialIndex_groundDistanceToUnits",
     {"self": {"dX": "float", "dY": "float"}, "distance": "float"}, "int", {}),
    ("core/obs_coords.py", "GeoCoords.toECEFCoords", "GeoCoords_toECEFCoords",
     {"self": {"lon": "float", "lat": "float", "hgt": "float"}}, "object[ECEFCoords]", {}),
    ("core/obs_coords.py", "ECEFCoords.toGeoCoords", "ECEFCoords_toGeoCoords",
     {"self": {"X": "float", "Y": "float", "Z": "float"}}, "object[GeoCoords]", {}),
    ("core/obs_coords.py", "ECEFCoords.toENUCoords", "ECEFCoords_toENUCoords",
     {"self": {"X": "float", "Y": "float", "Z": "float"}, "base": {"toECEFCoords()": "object[ECEFCoords]"}}, "object[ENUCoords]", {}),
    ("core/obs_coords.py", "ENUCoords.toECEFCoords", "ENUCoords_toECEFCoords",
     {"self": {"E": "float", "N": "float", "U": "float"}, "base": {"toECEFCoords()": "object[ECEFCoords]"}}, "object[ECEFCoords]", {}),
    ("core/obs_coords.py", "ENUCoords.getX", "ENUCoords_getX", {"self": {"__class__": "ENUCoords", "E": "float", "N": "float", "U": "float"}}, "float", {}),
    ("core/obs_coords.py", "ENUCoords.getY", "ENUCoords_getY", {"self": {"__class__": "ENUCoords", "E": "float", "N": "float", "U": "float"}}, "float", {}),
    ("core/obs_coords.py", "ENUCoords.getZ", "ENUCoords_getZ", {"self": {"__class__": "ENUCoords", "E": "float", "N": "float", "U": "float"}}, "float", {}),
    ("core/obs_coords.py", "ENUCoords.__sub__", "ENUCoords_sub", {"self": {"__class__": "ENUCoords", "E": "float", "N": "float", "U": "float"}, "p": {"__class__": "ENUCoords", "E": "float", "N": "float", "U": "float"}}, "object[ENUCoords]", {}),
    ("core/obs_coords.py", "ENUCoords.norm2D", "ENUCoords_norm2D", {"self": {"__class__": "ENUCoords", "E": "float", "N": "float"}}, "float", {}),
    ("core/obs_coords.py", "ENUCoords.distance2DTo", "ENUCoords_distance2DTo", {"self": {"__class__": "ENUCoords", "E": "float", "N": "float", "U": "float"}, "point": {"__class__": "ENUCoords", "E": "float", "N": "float", "U": "float"}}, "float", {}),
    ("core/obs.py", "Obs.distance2DTo", "Obs_distance2DTo",
     {"self": {"position": "object[ENUCoords]"}, "obs": {"position": "object[ENUCoords]"}}, "float", {},
     {"assume_noop": ["Obs.__check_call_geom1"]}),
    ("algo/analytics.py", "ds", "analytics_ds", {"track": "objlist[Obs]", "i": "int"}, "float", {}),
    ("algo/analytics.py", "speed", "analytics_speed", {"track": "objlist[Obs]", "i": "int"}, "float", {}, {"imports": {"NAN": "core/utils.py"}}),
    ("algo/interpolation.py", "prepareTimeSampling", "prepareTimeSampling_number",
     {"input": "float", "tini": "float", "tfin": "float"}, "list[float]", {"output": "list[float]"}),
    ("algo/interpolation.py", "prepareTimeSampling", "prepareTimeSampling_list",
     {"input": "list[record[AbsTime]]", "tini": "float", "tfin": "float"}, "list[float]", {"output": "list[float]"}),
    ("algo/interpolation.py", "prepareTimeSampling", "prepareTimeSampling_track",
     {"input": "objlist[Obs]", "tini": "float", "tfin": "float"}, "list[float]", {"output": "list[float]"}),
    ("algo/interpolation.py", "__resampleSpatial", "resampleSpatial", {"track": "objlist[Obs]", "ds": "float"}, "objlist[Obs]",
     {"S": "list[float]", "running_id": "int"},
     {"make": {"Obs(ENUCoords(_, _, _), ObsTime.readUnixTime(_))": "Obs"}, "assume_identity_methods": ["copy"],
      "assume_noop_stmts": ["interp_points[0].features = []"], "result_call": "track.setObsList"}),
    ("algo/interpolation.py", "__resampleTemporal", "resampleTemporal_number", {"track": "objlist[Obs]", "reference": "float"}, "objlist[Obs]",
     {"T": "list[float]", "interp_points": "objlist[Obs]", "running_id": "int"},
     {"make": {"Obs(ENUCoords(_, _, _), ObsTime.readUnixTime(_))": "Obs"}, "result_call": "track.setObsList",
      "variants": {"prepareTimeSampling": "prepareTimeSampling_number"}}),
    ("algo/interpolation.py", "__resampleTemporal", "resampleTemporal_list", {"track": "objlist[Obs]", "reference": "list[record[AbsTime]]"}, "objlist[Obs]",
     {"T": "list[float]", "interp_points": "objlist[Obs]", "running_id": "int"},
     {"make": {"Obs(ENUCoords(_, _, _), ObsTime.readUnixTime(_))": "Obs"}, "result_call": "track.setObsList",
      "variants": {"prepareTimeSampling": "prepareTimeSampling_list"}}),
    ("algo/interpolation.py", "__resampleTemporal", "resampleTemporal_track", {"track": "objlist[Obs]", "reference": "objlist[Obs]"}, "objlist[Obs]",
     {"T": "list[float]", "interp_points": "objlist[Obs]", "running_id": "int"},
     {"make": {"Obs(ENUCoords(_, _, _), ObsTime.readUnixTime(_))": "Obs"}, "result_call": "track.setObsList",
      "variants": {"prepareTimeSampling": "prepareTimeSampling_track"}}),
    ("core/utils.py", "isnan", "isnan", {"number": "float"}, "bool", {}),
    ("core/utils.py", "co_sum", "co_sum", {"tarray": "list[float]"}, "float", {"somme": "float"}, {"assume_identity": ["listify"]}),
    ("core/utils.py", "co_min", "co_min", {"tarray": "list[float]"}, "float", {}, {"assume_identity": ["listify"]}),
    ("core/utils.py", "co_max", "co_max", {"tarray": "list[float]"}, "float", {}, {"assume_identity": ["listify"]}),
    ("core/utils.py", "co_count", "co_count", {"tarray": "list[float]"}, "int", {"count": "int"}, {"assume_identity": ["listify"]}),
    ("core/utils.py", "co_avg", "co_avg", {"tarray": "list[float]"}, "float", {"mean": "float", "count": "int"},
     {"assume_identity": ["listify"]}),
    ("core/utils.py", "co_median", "co_median", {"tarray": "list[float]"}, "float",
     {"tarray2": "list[float]", "tab_sort": "list[float]"}, {"assume_identity": ["listify"]}),
    # ---- C11: segmentation() and the feature-name half of split() on a track seen as FEATURE COLUMNS
    ("algo/segmentation.py", "segmentation", "segmentation",
     {"track": {"size()": "int", "getObsAnalyticalFeature(col,int)": "float"}, "afs_input": "list[col]", "af_output": "name",
      "thresholds_max": "list[float]", "mode_comparaison": "int"}, "list[tuple[int,int]]", {},
     {"imports": {"isnan": "core/utils.py"}, "assume_noop": ["track.createAnalyticalFeature"], "write_log": "track.setObsAnalyticalFeature"}),
    ("algo/segmentation.py", "split", "split_feature",
     {"track": {"size()": "int", "getObsAnalyticalFeature(col,int)": "float"}, "source": "col", "limit": "float"}, "list[record[Piece]]",
     {"count": "int", "begin": "int"},
     {"new_list": {"tracklib.TrackCollection": "list[record[Piece]]"}, "append_methods": ["addTrack"],
      "make": {"track.extract(_, _)": "Piece"}, "record_methods": {"length": "float"}, "assume_noop": ["newtrack.setUid"]}),
    # ---- C12: the D / M tables of optimalPartition (the backward pass `backward(M)` is outside: the translation returns M)
    ("algo/segmentation.py", "optimalPartition", "optimalPartition_tables",
     {"cost_matrix": "table[float]", "mode": "int", "verbose": "bool"}, "table[float]", {},
     {"assume_identity": ["progressbar.progressbar"], "result_through": ["backward"]}),
    # ---- C15: the kernel window and the filter loops
    ("core/kernel.py", "Kernel.evaluate", "Kernel_evaluate",
     {"self": {"support": "float", "__kernel_function(float)": "float"}, "x": "float"}, "float", {},
     {"assume_identity_fn": ["np.vectorize"], "assume_true": ["output.shape == ()"]}),
    ("core/kernel.py", "Kernel.toSlidingWindow", "Kernel_toSlidingWindow",
     {"self": {"support": "float", "__kernel_function(float)": "float"}}, "list[float]", {"values": "list[float]", "norm": "float"}),
    ("core/operators.py", "Filter.execute", "Filter_execute_kernel",
     {"self": {}, "track": {"size()": "int", "getObsAnalyticalFeature(col,int)": "float"}, "af_input": "col",
      "kernel": {"__isinstance__": "Kernel", "filterBoundary()": "bool", "toSlidingWindow()": "list[float]"}, "af_output": "name"},
     "list[float]", {"temp": "list[float]", "norm": "float"},
     {"assume_false": ["str(kernel) == 'Dirac kernel'"], "assume_noop": ["track.createAnalyticalFeature", "addListToAF"],
      "imports": {"isnan": "core/utils.py"}}),
    ("core/raster.py", "Raster.getCell", "Raster_getCell",
     {"self": {"xmin": "float", "xmax": "float", "ymin": "float", "ymax": "float", "resolution": "tuple[float,float]",
               "nrow": "int", "ncol": "int"},
      "coord": {"getX()": "float", "getY()": "float"}}, "optional[tuple[int,int]]", {}),
]

# RECORD VIEWS: how an object that is only READ (an element of a track's observation list) is seen. Each entry is one
# DECLARED pure access path (attributes and argument-less accessor calls, e.g. "position", "timestamp.toAbsTime()") with its
# type; the object is the tuple of these, in this order (an `object[C]` component is the attributes of C in constructor order, a
# `record[V]` component the components of view V). "__class__" = (file, class) whose methods a method call / `-` on the object
# is resolved to, statically (ASSUMED: the run-time object is of that class or behaves like it on the declared paths).
# A parameter of type `objlist[V]` is a list of such objects with the observation-list API of `Track`:
#   X.getObs(e) / X[e]: element e (Python indexing, IndexError);  X.getFirstObs(): X[0];  X.getLastObs(): X[len - 1];
#   X.size() / len(X): the length.   (ASSUMED of the run-time object: these are plain list accesses, as in core/track.py.)
VIEWS = {
    "Obs": {"__class__": ("core/obs.py", "Obs"), "position": "object[ENUCoords]", "timestamp": "record[AbsTime]"},
    "AbsTime": {"__class__": ("core/obs_time.py", "ObsTime"), "toAbsTime()": "float"},
    # ORDER ABSTRACTION: an observation of which only the timestamp is read, and only COMPARED (`<`, `<=`, `>`): the ObsTime is
    # declared to be an integer key and its rich comparisons the integer ones (that ObsTime's field-wise __lt__/__gt__/__le__
    # agree with the order of the instants is C03's theorems `lt_iff` / `gt_iff` / `le_iff`, not re-proved by the tie)
    "ObsKey": {"__class__": ("core/obs.py", "Obs"), "timestamp": "int"},
    # a sub-track `track.extract(lo, hi)` seen as its two bounds (C11 `split`; its length() is an uninterpreted function of the bounds)
    "Piece": {"lo": "int", "hi": "int"},
}
REG = {}    # path -> Unit of the current run (classes and functions are looked up across the whitelisted files)


def find_class_unit(cls):
    """the unique registered unit that defines class `cls` at module level"""
    hits = [u for u in REG.values() if u.parse() and any(isinstance(n, ast.ClassDef) and n.name == cls for n in u.tree.body)]
    return hits[0] if len(hits) == 1 else None


def view_components(v):
    """[(path, type)] of view v"""
    if v not in VIEWS:
        raise Unsupported("no record view %s" % v)
    return [(k, parse_ty(t)) for k, t in VIEWS[v].items() if k != "__class__"]


def flat_types(t):
    """leaf types of a value of type t as it is laid out in a tuple"""
    if isinstance(t, tuple) and t[0] == "Obj":
        u = find_class_unit(t[1])
        info = u.ctor_info_local(t[1]) if u is not None else None
        if info is None:
            raise Unsupported("class %s has no constructor of the accepted form (in the whitelisted files)" % t[1])
        return [info[1][f] for f in info[0]]
    if isinstance(t, tuple) and t[0] == "Rec":
        out = []
        for _, ct in view_components(t[1]):
            out += flat_types(ct)
        return out
    return [t]


# uninterpreted functions passed as parameters of the generated definition: name -> (arity, result type, Lean type)
MATH_FUNS = {"sqrt": (1, "F", "α → α"), "sin": (1, "F", "α → α"), "cos": (1, "F", "α → α"), "tan": (1, "F", "α → α"),
             "atan": (1, "F", "α → α"), "atan2": (2, "F", "α → α → α"), "exp": (1, "F", "α → α"), "log": (1, "F", "α → α"),
             "floor": (1, "I", "α → Int"),      # math.floor
             "trunc": (1, "I", "α → Int"),      # int(x) on a float: truncation toward zero
             "pi": (0, "F", "α"),               # math.pi
             "pow": (2, "F", "α → α → α"),      # x ** y and pow(x, y) with a float operand (C's pow)
             "nan": (0, "F", "α"),              # float("nan") (and a module constant defined so)
             "inf": (0, "F", "α"),              # float("inf"), a literal that overflows to infinity (1e400)
             "dblmax": (0, "F", "α")}           # sys.float_info.max
MATH_ORDER = ["nan", "inf", "dblmax", "pi", "sqrt", "sin", "cos", "tan", "atan", "atan2", "exp", "log", "pow", "floor", "trunc"]
LEAN_KEYWORDS = {"«", "at", "from", "end", "fun", "in", "do", "then", "else", "if", "let", "have", "show", "by", "match",
                 "with", "where", "def", "theorem", "open", "section", "namespace", "variable", "instance", "class",
                 "structure", "import", "Type", "Prop", "Sort", "forall", "exists", "using", "this", "mut", "for",
                 "return", "true", "false", "none", "some", "α", "Py"}
INST_ORDER = ["Add", "Sub", "Mul", "Div", "Neg", "LT", "LE", "DecidableLT", "DecidableLE", "IntCast", "OfScientific"]
MAX_TERM = 200000  # characters; duplication of continuations is bounded


class Unsupported(Exception):
    pass


def bad(node, why):
    line = getattr(node, "lineno", "?")
    raise Unsupported("line %s: %s" % (line, why))


# ----------------------------------------------- types ---------------------------------------------------
def parse_ty(s):
    s = s.replace(" ", "")
    if s in ("float", "int", "bool"):
        return {"float": "F", "int": "I", "bool": "B"}[s]
    if s == "table[float]":
        return ("L", ("L", "F"))  # a 2-D numpy array of floats used as a plain table: the list of its rows (TABLES, header)
    if s == "col":
        return ("L", "F")        # a feature NAME, seen as the column it designates (FEATURE COLUMNS, header)
    if s == "name":
        return "S"               # an opaque string (a feature name that is only passed on): no Lean parameter
    if s.startswith("object[") and s.endswith("]"):
        return ("Obj", s[7:-1])
    if s.startswith("record[") and s.endswith("]"):
        return ("Rec", s[7:-1])
    if s.startswith("objlist[") and s.endswith("]"):
        return ("L", ("Rec", s[8:-1]))
    if s.startswith("list[") and s.endswith("]"):
        return ("L", parse_ty(s[5:-1]))
    if s.startswith("optional[") and s.endswith("]"):
        return ("O", parse_ty(s[9:-1]))
    if s.startswith("unbound[") and s.endswith("]"):
        return ("U", parse_ty(s[8:-1]))      # a local that may be read before it is assigned (only in `locals`)
    if s.startswith("tuple[") and s.endswith("]"):
        parts, depth, cur = [], 0, ""
        for ch in s[6:-1]:
            if ch == "," and depth == 0:
                parts.append(cur)
                cur = ""
            else:
                depth += ch == "["
                depth -= ch == "]"
                cur += ch
        parts.append(cur)
        return ("T", tuple(parse_ty(p) for p in parts))
    raise ValueError("bad type " + s)


def lean_ty(t):
    if t == "F":
        return "α"
    if t == "I":
        return "Int"
    if t == "B":
        return "Bool"
    if t[0] == "L":
        return "(List %s)" % lean_ty(t[1])
    if t[0] in ("O", "U"):
        return "(Option %s)" % lean_ty(t[1])
    if t[0] == "T":
        return "(" + " × ".join(lean_ty(x) for x in t[1]) + ")"
    if t[0] in ("Rec", "Obj"):
        fl = flat_types(t)
        return lean_ty(fl[0]) if len(fl) == 1 else "(" + " × ".join(lean_ty(x) for x in fl) + ")"
    raise ValueError(t)


def uses_alpha(t):
    if t == "F":
        return True
    if isinstance(t, tuple) and t[0] == "R":
        return False
    if isinstance(t, tuple) and t[0] == "Obj":
        return True
    if isinstance(t, tuple) and t[0] == "Rec":
        return any(uses_alpha(x) for x in flat_types(t))
    if isinstance(t, tuple):
        if t[0] in ("L", "O", "U"):
            return uses_alpha(t[1])
        return any(uses_alpha(x) for x in t[1])
    return False


def tuple_proj(term, i, n):
    """i-th component of a right-nested Lean product of n components"""
    s = term + ".2" * i
    if i < n - 1:
        s += ".1"
    return s


RESERVED = {"decide", "Int", "Nat", "List", "Option", "Bool", "Py", "some", "none", "true", "false", "Type", "TV",
            # tokens the engine greps for in every Lean source
            "fuel", "sorry", "admit", "native_decide", "bv_decide", "implemented_by", "unsafe", "axiom", "maxHeartbeats"} | set(MATH_FUNS)


def ident(name):
    """a Python parameter / local as a Lean binder: the same name; names the generated text itself uses are refused"""
    if name in MATH_FUNS or name == "fuel":
        return name + "'"       # a Python name equal to a parameter name of the generated code: primed (no Python name has a prime)
    if name in RESERVED or name in {e[2] for e in WHITELIST}:
        raise Unsupported("python name %s would capture a name used by the generated code" % name)
    if name in LEAN_KEYWORDS:
        return "«%s»" % name
    if name.startswith("py_"):
        raise Unsupported("python name %s collides with the translator's temporaries" % name)
    return name


# ------------------------------------- continuation contexts (loops) ------------------------------------
class KFun:
    """what `return`, falling off the end, `break`, `continue` mean at function level"""
    def __init__(self, tr):
        self.tr = tr

    def end(self, env):
        if self.tr.opts.get("write_log"):
            return "(.ok py_log)"          # WRITE LOG: the function's result is the sequence of its writes
        if isinstance(self.tr.ret, tuple) and self.tr.ret[0] == "O":
            return "(.ok none)"
        raise Unsupported("a path falls off the end of the function (returns None) but the declared return type is not optional")

    def ret(self, term):
        return "(.ok %s)" % term

    def brk(self, node, env):
        bad(node, "break outside a loop")

    def cont(self, node, env):
        bad(node, "continue outside a loop")


class KJoin:
    """inside the branches of an `if` translated with a join: falling off the end yields the tuple of the joined variables;
    return / break / continue cannot occur (checked before the rule is chosen)"""
    def __init__(self, tr, state):
        self.tr, self.state = tr, state

    def end(self, env):
        return "(.ok %s)" % self.tr.pack(self.state, env)

    def ret(self, term):
        raise Unsupported("internal: return inside a joined if")

    def brk(self, node, env):
        bad(node, "internal: break inside a joined if")

    def cont(self, node, env):
        bad(node, "internal: continue inside a joined if")


class KLoop:
    """inside a loop body: the end of the body and `continue` give `.cont state`, `break` gives `.brk state`,
    `return e` gives `.ret e`"""
    def __init__(self, tr, state):
        self.tr, self.state = tr, state

    def end(self, env):
        return "(.ok (Py.Ctl.cont %s))" % self.tr.pack(self.state, env)

    def ret(self, term):
        return "(.ok (Py.Ctl.ret %s))" % term

    def brk(self, node, env):
        return "(.ok (Py.Ctl.brk %s))" % self.tr.pack(self.state, env)

    def cont(self, node, env):
        return "(.ok (Py.Ctl.cont %s))" % self.tr.pack(self.state, env)


# --------------------------------------------- one function ----------------------------------------------
class Val:
    """a translated expression: Lean term (pure, over names bound so far), Python type, literal value if the
    expression is an int literal (possibly negated)"""
    def __init__(self, term, ty, lit=None):
        self.term, self.ty, self.lit = term, ty, lit


class FnTranslator:
    def __init__(self, unit, entry):
        self.unit = unit
        self.path, self.pyname, self.lean, params, ret, locs = entry[:6]
        self.opts = entry[6] if len(entry) > 6 else {}
        self.allow_rec = False
        self.uses_fuel = False   # the function (or one it calls) has a `while` loop: extra parameter `fuel : Nat`
        self.nloop = 0
        # a parameter declared with a dict is an object of which only the listed attributes ("name") and argument-less
        # pure accessor methods ("name()") are read: each becomes one Lean parameter `<param>_<name>`
        self.params = {}
        self.records = {}
        self.objclass = {}
        # python KIND of a parameter, from the declared type string: decides `isinstance` tests on it
        self.kind = {}
        for k, v in params.items():
            if isinstance(v, str):
                vs = v.replace(" ", "")
                self.kind[k] = ("track" if vs.startswith("objlist[") else "list" if vs.startswith("list[") else
                                "number" if vs == "float" else "int" if vs == "int" else "bool" if vs == "bool" else
                                "str" if vs in ("col", "name") else "other")
            elif isinstance(v, dict) and "__isinstance__" in v:
                self.kind[k] = "class:" + v["__isinstance__"]
        for k, v in params.items():
            if isinstance(v, dict):
                self.records[k] = {f: parse_ty(t) for f, t in v.items() if f not in ("__class__", "__isinstance__")}
                if "__class__" in v:
                    # an instance of a class of the same file: its methods / operators are resolved statically
                    self.objclass[k] = v["__class__"]
                    self.params[k] = ("Obj", v["__class__"])
                else:
                    self.params[k] = ("R", k)
            else:
                self.params[k] = parse_ty(v)
        self.ret = parse_ty(ret)
        self.locals = {k: parse_ty(v) for k, v in locs.items()}
        self.needs = set()       # instance classes of α
        self.ofnat = set()       # literals n needing OfNat α n
        self.math = set()        # math functions passed as parameters
        self.ntmp = 0
        self.size = 0
        self.rec_funs = {}       # uninterpreted methods of records (declared "record_methods"): Lean name -> (result type, record type)

    # ---- bookkeeping
    def need(self, *cls):
        for c in cls:
            self.needs.add(c)
            if c == "DecidableLT":
                self.needs.add("LT")
            if c == "DecidableLE":
                self.needs.add("LE")

    def tmp(self):
        self.ntmp += 1
        return "py_t%d" % self.ntmp

    def grow(self, s):
        self.size += len(s)
        if self.size > MAX_TERM:
            raise Unsupported("translated term too large (continuation duplication)")
        return s

    # ---- coercions
    def as_float(self, node, v):
        if v.ty == "F":
            return v.term
        if v.ty == "I":
            if v.lit is not None:
                n = abs(v.lit)
                self.ofnat.add(n)
                if v.lit < 0:
                    self.need("Neg")
                    return "(-(%d : α))" % n
                return "(%d : α)" % n
            self.need("IntCast")
            return "((%s : Int) : α)" % v.term
        bad(node, "a %s where a number is expected" % (v.ty,))

    def nonzero_literal(self, node):
        if isinstance(node, ast.Name) and node.id not in self._env_names and node.id not in self.assigned:
            c = self.unit.constant(node.id)      # a module constant defined as a non-zero literal
            return c is not None and not isinstance(c, ast.Name) and self.nonzero_literal(c)
        if isinstance(node, ast.Constant) and type(node.value) in (int, float) and node.value != 0 and node.value == node.value:
            return True
        if isinstance(node, ast.UnaryOp) and isinstance(node.op, (ast.USub, ast.UAdd)):
            return self.nonzero_literal(node.operand)
        return False

    # ---- expressions.  expr(e, env, binds) appends (name, monadic term) pairs to binds and returns a Val
    def expr(self, e, env, binds):
        v = self.expr_s(e, env, binds)
        if v.ty == "S":
            bad(e, "a string where a value is needed (strings are only accepted as arguments of print)")
        if isinstance(v.ty, tuple) and v.ty[0] == "Obj":
            bad(e, "an object where a value is needed (an object can only be bound to a local name)")
        if isinstance(v.ty, tuple) and v.ty[0] == "Rec" and not self.allow_rec:
            bad(e, "a record where a value is needed (a record can only be bound to a local name or passed to a method of its class)")
        return v

    def expr_s(self, e, env, binds):
        """as expr, but the result may be an (unrendered) string"""
        if isinstance(e, ast.Constant):
            v = e.value
            if type(v) is bool:
                return Val("true" if v else "false", "B")
            if type(v) is int:
                if v < 0:
                    bad(e, "negative constant")
                return Val("(%d : Int)" % v, "I", lit=v)
            if type(v) is float:
                if v == float("inf"):
                    self.math.add("inf")      # a literal that overflows (1e400): +infinity
                    return Val("inf", "F")
                if v != v or v == float("-inf"):
                    bad(e, "non-finite float literal")
                self.need("OfScientific")
                r = repr(v)
                if "." not in r and "e" not in r and "E" not in r:
                    r += ".0"
                return Val("(%s : α)" % r, "F")
            if type(v) is str:
                return Val(None, "S")
            bad(e, "constant of type %s" % type(v).__name__)
        if isinstance(e, ast.Name):
            if e.id not in env:
                if e.id not in self.assigned:
                    c = self.unit.constant(e.id)
                    if c is None and e.id in self.opts.get("imports", {}):
                        # DECLARED cross-file constant: bound here by exactly one `from … import NAME`, defined in that file
                        other = self.unit.registry.get(self.opts["imports"][e.id])
                        bound = [n for n in self.unit.tree.body if isinstance(n, ast.ImportFrom)
                                 and any(a.name == e.id and a.asname is None for a in n.names)]
                        if other is not None and other.parse() and len(bound) == 1:
                            c = other.constant(e.id)
                    if c is not None:
                        b = []
                        v = self.expr(c, {}, b)      # a module constant: literal arithmetic only
                        if b or v.ty not in ("F", "I"):
                            bad(e, "module constant %s is not plain literal arithmetic" % e.id)
                        return v
                bad(e, "name %s is not a parameter, a module constant or a local bound on every path to here" % e.id)
            if isinstance(env[e.id], tuple) and env[e.id][0] in ("R", "Obj"):
                bad(e, "object %s used as a value (only its attributes can be read)" % e.id)
            if isinstance(env[e.id], tuple) and env[e.id][0] == "U":
                t = self.tmp()                  # UnboundLocalError when not yet assigned
                binds.append((t, "(Py.getBound %s)" % ident(e.id)))
                return Val(t, env[e.id][1])
            if isinstance(env[e.id], tuple) and env[e.id][0] == "L" and env[e.id][1] is None:
                bad(e, "list %s has no element type yet: declare it in the signature" % e.id)
            return Val(ident(e.id), env[e.id])
        if isinstance(e, ast.UnaryOp):
            v = self.expr(e.operand, env, binds)
            if isinstance(e.op, ast.Not):
                if v.ty != "B":
                    bad(e, "`not` of a non-bool (truthiness is not in the subset)")
                return Val("(!%s)" % v.term, "B")
            if isinstance(e.op, ast.UAdd):
                if v.ty not in ("F", "I"):
                    bad(e, "unary + of a non-number")
                return v
            if isinstance(e.op, ast.USub):
                if v.ty == "I":
                    if v.lit is not None:
                        return Val("(-%s)" % v.term, "I", lit=-v.lit)
                    return Val("(-%s)" % v.term, "I")
                if v.ty == "F":
                    self.need("Neg")
                    return Val("(-%s)" % v.term, "F")
                bad(e, "unary - of a non-number")
            bad(e, "unary operator")
        if isinstance(e, ast.BinOp):
            return self.binop(e, env, binds)
        if isinstance(e, ast.Compare):
            return self.compare(e, env, binds)
        if isinstance(e, ast.BoolOp):
            return self.boolop(e, env, binds)
        if isinstance(e, ast.IfExp):
            c = self.expr(e.test, env, binds)
            if c.ty != "B":
                bad(e, "condition is not a bool")
            b1, b2 = [], []
            v1 = self.expr(e.body, env, b1)
            v2 = self.expr(e.orelse, env, b2)
            if v1.ty != v2.ty:
                if {v1.ty, v2.ty} == {"F", "I"}:
                    v1 = Val(self.as_float(e.body, v1), "F")
                    v2 = Val(self.as_float(e.orelse, v2), "F")
                else:
                    bad(e, "branches of a conditional expression have different types")
            if not b1 and not b2:
                return Val("(if %s then %s else %s)" % (c.term, v1.term, v2.term), v1.ty)
            t = self.tmp()
            binds.append((t, "(if %s then %s else %s)" % (c.term, self.close(b1, ".ok %s" % v1.term), self.close(b2, ".ok %s" % v2.term))))
            return Val(t, v1.ty)
        if isinstance(e, ast.Tuple):
            vs = [self.expr(x, env, binds) for x in e.elts]
            if len(vs) < 2:
                bad(e, "tuple of fewer than two components")
            return Val("(" + ", ".join(v.term for v in vs) + ")", ("T", tuple(v.ty for v in vs)))
        if isinstance(e, ast.List) and e.elts:
            sts = [self.static_type(x, env) for x in e.elts]
            if any(isinstance(t, tuple) and t[0] == "Rec" for t in sts) or (self.opts.get("assume_identity_methods") and all(
                    isinstance(x, ast.Call) and isinstance(x.func, ast.Attribute) and x.func.attr in self.opts["assume_identity_methods"] for x in e.elts)):
                vs = [self.expr_s(x, env, binds) for x in e.elts]
                if not all(isinstance(v.ty, tuple) and v.ty[0] == "Rec" and v.ty == vs[0].ty for v in vs):
                    bad(e, "list display mixing records and other values")
                return Val("[" + ", ".join(v.term for v in vs) + "]", ("L", vs[0].ty))
        if isinstance(e, ast.List):
            vs = [self.expr(x, env, binds) for x in e.elts]
            if not vs:
                bad(e, "empty list display outside an assignment")
            if all(v.ty == "I" for v in vs):
                return Val("[" + ", ".join(v.term for v in vs) + "]", ("L", "I"))
            if all(v.ty in ("F", "I") for v in vs):
                return Val("[" + ", ".join(self.as_float(x, v) for x, v in zip(e.elts, vs)) + "]", ("L", "F"))
            bad(e, "list display of non-numbers")
        if isinstance(e, ast.Call) and self.opts.get("make"):
            r = self.make_record(e, env, binds)
            if r is not None:
                return r
        if isinstance(e, ast.Call) and isinstance(e.func, ast.Attribute) and not e.args and not e.keywords \
                and e.func.attr in self.opts.get("assume_identity_methods", ()):
            rt = self.static_type(e.func.value, env)
            if isinstance(rt, tuple) and rt[0] == "Rec":
                # DECLARED: this argument-less method of a record returns (a copy of) the record — records are values here
                return self.expr_s(e.func.value, env, binds)
        if isinstance(e, (ast.Attribute, ast.Call, ast.Subscript)):
            r = self.rec_access(e, env, binds)
            if r is not None:
                return r
        if isinstance(e, ast.Subscript) and isinstance(e.value, ast.Attribute) and e.value.attr == "shape" \
                and isinstance(e.slice, ast.Constant) and e.slice.value == 0 and isinstance(e.value.value, ast.Name) \
                and env.get(e.value.value.id) == ("L", ("L", "F")):
            return Val("(Py.len %s)" % ident(e.value.value.id), "I")       # T.shape[0]: the number of rows of a table
        if isinstance(e, ast.Subscript) and isinstance(e.slice, ast.Tuple) and len(e.slice.elts) == 2 \
                and isinstance(e.value, ast.Name) and env.get(e.value.id) == ("L", ("L", "F")):
            i1 = self.expr(e.slice.elts[0], env, binds)
            i2 = self.expr(e.slice.elts[1], env, binds)
            if i1.ty != "I" or i2.ty != "I":
                bad(e, "table index that is not an int")
            t = self.tmp()          # T[i, j]: row i (negative indices as numpy / Python, IndexError), then item j likewise
            binds.append((t, "(Py.getIdx2 %s %s %s)" % (ident(e.value.id), i1.term, i2.term)))
            return Val(t, "F")
        if isinstance(e, ast.Subscript):
            v = self.expr(e.value, env, binds)
            k = e.slice
            if not (isinstance(k, ast.Constant) and type(k.value) is int and k.value >= 0):
                # computed index: Python's rule for negative indices, IndexError out of range
                if isinstance(k, (ast.Slice, ast.Tuple)) or not (isinstance(v.ty, tuple) and v.ty[0] == "L"):
                    bad(e, "subscript that is not a literal >= 0 on a tuple / a slice")
                iv = self.expr(k, env, binds)
                if iv.ty != "I":
                    bad(e, "list index that is not an int")
                t = self.tmp()
                binds.append((t, "(Py.getIdx %s %s)" % (v.term, iv.term)))
                return Val(t, v.ty[1])
            if isinstance(v.ty, tuple) and v.ty[0] == "L":
                t = self.tmp()
                binds.append((t, "(Py.getItem %s %d)" % (v.term, k.value)))
                return Val(t, v.ty[1])
            if isinstance(v.ty, tuple) and v.ty[0] == "T":
                if k.value >= len(v.ty[1]):
                    bad(e, "tuple index out of range")
                return Val(tuple_proj(v.term, k.value, len(v.ty[1])), v.ty[1][k.value])
            bad(e, "subscript of a %s" % (v.ty,))
        if isinstance(e, ast.Attribute):
            if ast.unparse(e) == "sys.float_info.max" and "sys" not in env:
                self.math.add("dblmax")
                return Val("dblmax", "F")
            if isinstance(e.value, ast.Name) and e.value.id == "math" and "math" not in env and e.attr in ("pi", "inf", "nan"):
                self.math.add(e.attr)
                return Val(e.attr, "F")
            if isinstance(e.value, ast.Name) and e.value.id not in env and e.value.id not in self.assigned:
                c = self.unit.class_constant(e.value.id, e.attr)
                if c is not None:
                    b = []
                    v = self.expr(c, {}, b)          # a class-level constant: literal arithmetic / list of literals
                    if b:
                        bad(e, "class constant %s.%s is not plain literal arithmetic" % (e.value.id, e.attr))
                    return v
            if isinstance(e.value, ast.Name) and env.get(e.value.id) == ("R", e.value.id):
                fields = self.records[e.value.id]
                if e.attr not in fields:
                    bad(e, "attribute %s.%s is not declared in the signature" % (e.value.id, e.attr))
                ft = fields[e.attr]
                if isinstance(ft, tuple) and ft[0] == "Obj":
                    cf = self.unit.ctor_fields(ft[1])
                    if cf is None:
                        bad(e, "class %s has no constructor of the accepted form" % ft[1])
                    return Val("(" + ", ".join(ident(e.value.id + "_" + e.attr + "_" + g) for g in cf) + ")", ft)
                return Val(ident(e.value.id + "_" + e.attr), ft)
            if isinstance(e.value, ast.Name) and isinstance(env.get(e.value.id), tuple) and env[e.value.id][0] == "Obj":
                key = e.value.id + "." + e.attr
                if key not in env:
                    bad(e, "attribute %s of the local object is not set by its constructor" % key)
                return Val(ident(e.value.id + "_" + e.attr), env[key])
            bad(e, "attribute access")
        if isinstance(e, ast.Call):
            return self.call(e, env, binds)
        bad(e, "expression %s" % type(e).__name__)

    def close(self, binds, tail):
        """Py.bind m1 (fun n1 => Py.bind m2 (fun n2 => ... tail))"""
        s = tail
        for name, m in reversed(binds):
            s = "(Py.bind %s fun %s => %s)" % (m, name, s)
        if not binds:
            s = "(%s)" % s
        return self.grow(s)

    def binop(self, e, env, binds):
        if isinstance(e.op, (ast.Sub, ast.Add)) and self.is_objexpr(e.left, env):
            # operator of the left operand's class (static resolution; __r*__ fallbacks are not in the subset)
            cls, terms = self.obj_terms(e.left, env, binds)
            callee = self.lookup_method(e, ("Obj", cls), "__sub__" if isinstance(e.op, ast.Sub) else "__add__")
            return self.call_translated(e, callee, [("obj", cls, terms), e.right], env, binds)
        if isinstance(e.op, (ast.Sub, ast.Add)):
            rt = self.static_type(e.left, env)
            if isinstance(rt, tuple) and rt[0] == "Rec":
                # operator of the class of the record's view (e.g. ObsTime.__sub__ on two timestamps)
                recv = self.expr_s(e.left, env, binds)
                callee = self.lookup_method(e, rt, "__sub__" if isinstance(e.op, ast.Sub) else "__add__")
                return self.call_translated(e, callee, [("rec", recv), e.right], env, binds)
        if isinstance(e.op, ast.Mult) and isinstance(e.left, ast.List) and len(e.left.elts) == 1:
            # [c] * n: n copies of c (none when n <= 0), Py.replicate
            c = self.expr(e.left.elts[0], env, binds)
            n = self.expr(e.right, env, binds)
            if c.ty not in ("F", "I") or n.ty != "I":
                bad(e, "[c] * n with c not a number or n not an int")
            return Val("(Py.replicate %s %s)" % (n.term, c.term), ("L", c.ty), lit=c.lit)
        a = self.expr_s(e.left, env, binds)
        b = self.expr_s(e.right, env, binds)
        if (a.ty == "S") != (b.ty == "S"):
            bad(e, "string mixed with a non-string")
        op = e.op
        if a.ty == "S" and b.ty == "S" and isinstance(op, ast.Add):
            return Val(None, "S")
        if isinstance(op, ast.Mult) and {a.ty, b.ty} == {"B", "F"}:
            # a bool as a number: True is 1, False is 0 (the product is then a float)
            self.need("Mul")
            self.ofnat |= {0, 1}
            x = a.term if a.ty == "F" else "(if %s then (1 : α) else (0 : α))" % a.term
            y = b.term if b.ty == "F" else "(if %s then (1 : α) else (0 : α))" % b.term
            return Val("(%s * %s)" % (x, y), "F")
        if isinstance(op, ast.Mult) and a.ty == "B" and b.ty == "I":
            return Val("((if %s then (1 : Int) else (0 : Int)) * %s)" % (a.term, b.term), "I")      # True == 1, False == 0
        if a.ty not in ("F", "I") or b.ty not in ("F", "I"):
            if isinstance(op, (ast.BitAnd, ast.BitOr)) and a.ty == "B" and b.ty == "B":
                return Val("(%s %s %s)" % (a.term, "&&" if isinstance(op, ast.BitAnd) else "||", b.term), "B")
            bad(e, "arithmetic on %s and %s" % (a.ty, b.ty))
        if isinstance(op, (ast.Add, ast.Sub, ast.Mult)):
            sym, cls = {ast.Add: ("+", "Add"), ast.Sub: ("-", "Sub"), ast.Mult: ("*", "Mul")}[type(op)]
            if a.ty == "I" and b.ty == "I":
                return Val("(%s %s %s)" % (a.term, sym, b.term), "I")
            self.need(cls)
            return Val("(%s %s %s)" % (self.as_float(e.left, a), sym, self.as_float(e.right, b)), "F")
        if isinstance(op, ast.Pow):
            if a.ty == "I" and b.ty == "I":
                if b.lit is not None and b.lit >= 0:
                    return Val("(%s ^ (%d : Nat))" % (a.term, b.lit), "I")
                # int ** int is an int only for a non-negative exponent (Python returns a FLOAT for a negative one: a value
                # the translator cannot type); Py.ipow gives the error value `Err.type` there — a tie must exclude that case
                t = self.tmp()
                binds.append((t, "(Py.ipow %s %s)" % (a.term, b.term)))
                return Val(t, "I")
            self.math.add("pow")
            return Val("(pow %s %s)" % (self.as_float(e.left, a), self.as_float(e.right, b)), "F")
        if isinstance(op, ast.Div):
            x, y = self.as_float(e.left, a), self.as_float(e.right, b)
            self.need("Div")
            if self.nonzero_literal(e.right):
                return Val("(%s / %s)" % (x, y), "F")
            self.need("LE", "DecidableLE")
            self.ofnat.add(0)
            t = self.tmp()
            binds.append((t, "(Py.fdiv %s %s)" % (x, y)))
            return Val(t, "F")
        if isinstance(op, ast.RShift):
            if not (a.ty == "I" and b.ty == "I"):
                bad(e, ">> on non-ints")
            if b.lit is not None and b.lit >= 0:
                return Val("(Int.shiftRight %s %d)" % (a.term, b.lit), "I")
            t = self.tmp()
            binds.append((t, "(Py.ishr %s %s)" % (a.term, b.term)))      # ValueError on a negative count
            return Val(t, "I")
        if isinstance(op, (ast.Mod, ast.FloorDiv)):
            if not (a.ty == "I" and b.ty == "I"):
                bad(e, "% or // on floats")
            pure, eff = {ast.Mod: ("Int.fmod", "Py.imod"), ast.FloorDiv: ("Int.fdiv", "Py.ifloordiv")}[type(op)]
            if self.nonzero_literal(e.right):
                return Val("(%s %s %s)" % (pure, a.term, b.term), "I")
            t = self.tmp()
            binds.append((t, "(%s %s %s)" % (eff, a.term, b.term)))
            return Val(t, "I")
        bad(e, "operator %s" % type(op).__name__)

    def cmp2(self, node, op, a, b, anode, bnode):
        if isinstance(op, (ast.In, ast.NotIn)):
            # membership in a list of ints / of tuples of ints (decidable equality is Python's == there)
            def discrete(t):
                return t in ("I", "B") or (isinstance(t, tuple) and t[0] == "T" and all(discrete(x) for x in t[1]))
            if not (isinstance(b.ty, tuple) and b.ty[0] == "L" and b.ty[1] == a.ty and discrete(a.ty)):
                bad(node, "`in` is only accepted for an int / a tuple of ints in a list of the same")
            return ("(Py.contains %s %s)" if isinstance(op, ast.In) else "(!Py.contains %s %s)") % (b.term, a.term)
        if a.ty == "I" and b.ty == "I":
            x, y = a.term, b.term
            if isinstance(op, ast.Eq):
                return "(decide (%s = %s))" % (x, y)
            if isinstance(op, ast.NotEq):
                return "(!decide (%s = %s))" % (x, y)
        elif a.ty in ("F", "I") and b.ty in ("F", "I"):
            x, y = self.as_float(anode, a), self.as_float(bnode, b)
            if isinstance(op, (ast.Eq, ast.NotEq)):
                self.need("LE", "DecidableLE")
                return ("(Py.feq %s %s)" if isinstance(op, ast.Eq) else "(!Py.feq %s %s)") % (x, y)
            self.need("DecidableLT" if isinstance(op, (ast.Lt, ast.Gt)) else "DecidableLE")
        else:
            bad(node, "comparison of %s and %s" % (a.ty, b.ty))
        if isinstance(op, ast.Lt):
            return "(decide (%s < %s))" % (x, y)
        if isinstance(op, ast.LtE):
            return "(decide (%s ≤ %s))" % (x, y)
        if isinstance(op, ast.Gt):
            return "(decide (%s < %s))" % (y, x)
        if isinstance(op, ast.GtE):
            return "(decide (%s ≤ %s))" % (y, x)
        bad(node, "comparison operator %s" % type(op).__name__)

    def compare(self, e, env, binds):
        if len(e.ops) == 1 and isinstance(e.ops[0], (ast.Eq, ast.NotEq, ast.Is, ast.IsNot)) \
                and isinstance(e.comparators[0], ast.Constant) and e.comparators[0].value is None and isinstance(e.left, ast.Name):
            # `x != None` / `x is not None` (`==` / `is`): x a number, a bool or a list — a parameter DECLARED with such a type is
            # ASSUMED not to be None; a local of such a type cannot be
            t = env.get(e.left.id)
            if t in ("F", "I", "B") or (isinstance(t, tuple) and t[0] in ("L", "T")):
                return Val("true" if isinstance(e.ops[0], (ast.NotEq, ast.IsNot)) else "false", "B")
            bad(e, "comparison with None of something that is not a number / a list")
        nodes = [e.left] + list(e.comparators)
        if len(nodes) > 3:
            bad(e, "comparison chain longer than two")
        vals = []
        for i, n in enumerate(nodes):
            b = []
            v = self.expr(n, env, b)
            if i == 2 and b:
                bad(e, "third operand of a comparison chain can raise (Python would skip it)")
            binds.extend(b)
            vals.append(v)
        parts = [self.cmp2(e, op, vals[i], vals[i + 1], nodes[i], nodes[i + 1]) for i, op in enumerate(e.ops)]
        return Val(parts[0] if len(parts) == 1 else "(%s && %s)" % tuple(parts), "B")

    @staticmethod
    def match_pattern(pat, node, holes):
        """structural match of an expression against a pattern with holes `_`; the hole sub-expressions are collected in order"""
        if isinstance(pat, ast.Name) and pat.id == "_":
            holes.append(node)
            return True
        if type(pat) is not type(node):
            return False
        for fld in pat._fields:
            if fld == "ctx":
                continue
            a, b = getattr(pat, fld), getattr(node, fld)
            if isinstance(a, list):
                if not isinstance(b, list) or len(a) != len(b):
                    return False
                for x, y in zip(a, b):
                    if isinstance(x, ast.AST):
                        if not FnTranslator.match_pattern(x, y, holes):
                            return False
                    elif x != y:
                        return False
            elif isinstance(a, ast.AST):
                if not isinstance(b, ast.AST) or not FnTranslator.match_pattern(a, b, holes):
                    return False
            elif a != b:
                return False
        return True

    def make_record(self, e, env, binds):
        """DECLARED constructor pattern {"make": {"Obs(ENUCoords(_, _, _), ObsTime.readUnixTime(_))": "Obs"}}: an expression of
        exactly this shape builds a record of that view whose leaves are the hole expressions, in order"""
        for pat, view in self.opts.get("make", {}).items():
            holes = []
            if self.match_pattern(ast.parse(pat, mode="eval").body, e, holes):
                leaves = flat_types(("Rec", view))
                if len(leaves) != len(holes):
                    bad(e, "pattern %s has %d holes, view %s has %d leaves" % (pat, len(holes), view, len(leaves)))
                terms = []
                for h, lt in zip(holes, leaves):
                    v = self.expr(h, env, binds)
                    terms.append(self.coerce(h, v, lt))
                return Val(terms[0] if len(terms) == 1 else "(" + ", ".join(terms) + ")", ("Rec", view))
        return None

    def static_bool(self, e, env):
        """True / False when e is built from isinstance tests on declared parameters (with not / and / or); None otherwise"""
        if isinstance(e, ast.UnaryOp) and isinstance(e.op, ast.Not):
            v = self.static_bool(e.operand, env)
            return None if v is None else not v
        if isinstance(e, ast.BoolOp):
            def has_isinstance(n):
                return any(isinstance(m, ast.Call) and isinstance(m.func, ast.Name) and m.func.id == "isinstance" for m in ast.walk(n))
            if not all(has_isinstance(v) for v in e.values):
                return None
            v = self.boolop(e, env, [])
            if v.term in ("true", "false"):
                return v.term == "true"
            vals = [self.static_bool(x, env) for x in e.values]
            if any(x is None for x in vals):
                return None
            return all(vals) if isinstance(e.op, ast.And) else any(vals)
        if isinstance(e, ast.Call):
            return self.isinstance_test(e, env)
        return None

    def isinstance_test(self, e, env):
        """`isinstance(p, C)` on a PARAMETER p that still holds the caller's argument on the path to the test (no assignment to p
        on that path; inside a loop: none anywhere in the loop), decided from p's declared kind:
        list[..] is a `list`; objlist[..] is a `Track` (`tracklib.Track`); `col` / `name` is a `str`; a parameter declared with
        {"__isinstance__": "K"} is an instance of class K (and of no other class named in a test); a declared float is "an int or a
        float": the test for ONE of the two is refused, only the disjunction of both is accepted (true).
        Returns True / False / None (not of this form)."""
        if not (isinstance(e, ast.Call) and isinstance(e.func, ast.Name) and e.func.id == "isinstance" and "isinstance" not in env
                and len(e.args) == 2 and not e.keywords and isinstance(e.args[0], ast.Name)):
            return None
        x = e.args[0].id
        if x not in self.kind or x in env.get("#rebound", ()):
            bad(e, "isinstance of something that is not a parameter with a declared kind, not rebound on the way to the test")
        cls = ast.unparse(e.args[1])
        kind = self.kind[x]
        if kind.startswith("class:"):
            if cls in ("list", "str", "int", "float", "Track", "tracklib.Track"):
                return False
            return cls == kind[6:]
        if cls == "list":
            return kind == "list"
        if cls in ("Track", "tracklib.Track"):
            return kind == "track"
        if cls == "str":
            return kind == "str" if kind != "other" else bad(e, "isinstance(.., str) of an undeclared kind")
        if cls in ("int", "float"):
            if kind in ("list", "track", "str"):
                return False
            if kind == "int":
                return cls == "int"
            bad(e, "isinstance(%s, %s) alone: a declared float is an int or a float" % (x, cls))
        if kind in ("list", "track", "str", "number", "int", "bool") and cls in self.opts.get("other_classes", ()):
            return False        # DECLARED: a class none of whose instances is a list / Track / str / number
        bad(e, "isinstance test against %s" % cls)

    def boolop(self, e, env, binds):
        is_and = isinstance(e.op, ast.And)
        if not is_and and len(e.values) == 2 and all(
                isinstance(v, ast.Call) and isinstance(v.func, ast.Name) and v.func.id == "isinstance" and len(v.args) == 2
                and isinstance(v.args[0], ast.Name) for v in e.values) \
                and e.values[0].args[0].id == e.values[1].args[0].id \
                and {ast.unparse(v.args[1]) for v in e.values} == {"int", "float"} \
                and self.kind.get(e.values[0].args[0].id) == "number" and e.values[0].args[0].id not in env.get("#rebound", ()):
            return Val("true", "B")        # isinstance(p, int) or isinstance(p, float) on a declared number
        first = self.expr(e.values[0], env, binds)
        if first.ty != "B":
            bad(e, "and/or on a non-bool (truthiness is not in the subset)")
        acc = first.term
        for n in e.values[1:]:
            b = []
            v = self.expr(n, env, b)
            if v.ty != "B":
                bad(e, "and/or on a non-bool (truthiness is not in the subset)")
            if not b:
                acc = "(%s %s %s)" % (acc, "&&" if is_and else "||", v.term)
            else:
                t = self.tmp()
                inner = self.close(b, ".ok %s" % v.term)
                if is_and:
                    binds.append((t, "(if %s then %s else .ok false)" % (acc, inner)))
                else:
                    binds.append((t, "(if %s then .ok true else %s)" % (acc, inner)))
                acc = t
        return Val(acc, "B")

    def is_objexpr(self, node, env):
        if isinstance(node, ast.Name):
            return isinstance(env.get(node.id), tuple) and env[node.id][0] == "Obj"
        if isinstance(node, ast.BinOp) and isinstance(node.op, (ast.Sub, ast.Add)):
            return self.is_objexpr(node.left, env)
        t = self.static_type(node, env)
        return isinstance(t, tuple) and t[0] == "Obj"

    # ---- records (read-only objects seen through a declared VIEW) and observation lists
    @staticmethod
    def path_step(node):
        """(segment, inner node) when node is `inner.attr` or `inner.accessor()`; None otherwise"""
        if isinstance(node, ast.Attribute):
            return node.attr, node.value
        if isinstance(node, ast.Call) and not node.args and not node.keywords and isinstance(node.func, ast.Attribute):
            return node.func.attr + "()", node.func.value
        return None

    def objlist_item(self, node, env):
        """(list node, index node | int) when node is X.getObs(e) / X[e] / X.getFirstObs() / X.getLastObs() on an objlist X"""
        def is_ol(n):
            t = env.get(n.id) if isinstance(n, ast.Name) else None
            return isinstance(t, tuple) and t[0] == "L" and isinstance(t[1], tuple) and t[1][0] == "Rec"
        if isinstance(node, ast.Call) and isinstance(node.func, ast.Attribute) and not node.keywords and is_ol(node.func.value):
            if node.func.attr == "getObs" and len(node.args) == 1:
                return node.func.value, node.args[0]
            if node.func.attr == "getFirstObs" and not node.args:
                return node.func.value, 0
            if node.func.attr == "getLastObs" and not node.args:
                return node.func.value, -1
        if isinstance(node, ast.Subscript) and is_ol(node.value) and not isinstance(node.slice, (ast.Slice, ast.Tuple)):
            return node.value, node.slice
        return None

    def static_type(self, node, env):
        """type of an object- / record-valued expression, decided from its syntax and the declarations (None: not one)"""
        if isinstance(node, ast.Name):
            t = env.get(node.id)
            return t if isinstance(t, tuple) and t[0] in ("Rec", "Obj") else None
        it = self.objlist_item(node, env)
        if it is not None:
            return env[it[0].id][1]
        st = self.path_step(node)
        if st is None:
            return None
        segs, inner = [st[0]], st[1]
        while True:
            if isinstance(inner, ast.Name) and env.get(inner.id) == ("R", inner.id):
                t = self.records[inner.id].get(".".join(reversed(segs)))
                return t if isinstance(t, tuple) and t[0] in ("Rec", "Obj") else None
            t = self.static_type(inner, env) if (isinstance(inner, ast.Name) or self.objlist_item(inner, env) is not None) else None
            if isinstance(t, tuple) and t[0] == "Rec":
                comp = self.path_type(t, ".".join(reversed(segs)))
                if comp is not None:
                    return comp if isinstance(comp, tuple) and comp[0] in ("Rec", "Obj") else None
            st = self.path_step(inner)
            if st is None:
                return None
            segs.append(st[0])
            inner = st[1]

    def path_type(self, rt, path):
        """type of the declared access path `path` from a record of type rt (through nested record views); None if undeclared"""
        comps = dict(view_components(rt[1]))
        if path in comps:
            return comps[path]
        segs = path.split(".")
        for k in range(len(segs) - 1, 0, -1):
            head = comps.get(".".join(segs[:k]))
            if isinstance(head, tuple) and head[0] == "Rec":
                return self.path_type(head, ".".join(segs[k:]))
        return None

    def rec_component(self, node, v, path):
        """component `path` of the record value v (a Val of type ("Rec", view)); a path may go through a record-valued
        component into its view (`timestamp.toAbsTime()` = component `timestamp`, then `toAbsTime()` of its view);
        None if the path is not declared"""
        segs = path.split(".")
        for k in range(len(segs) - 1, 0, -1):
            head = self.rec_component(node, v, ".".join(segs[:k])) if ".".join(segs[:k]) in dict(view_components(v.ty[1])) else None
            if head is not None and isinstance(head.ty, tuple) and head.ty[0] == "Rec":
                return self.rec_component(node, head, ".".join(segs[k:]))
        comps = view_components(v.ty[1])
        n = len(flat_types(v.ty))
        off = 0
        for pth, ct in comps:
            k = len(flat_types(ct))
            if pth == path:
                if k == 1:
                    return Val(tuple_proj(v.term, off, n), ct)
                return Val("(" + ", ".join(tuple_proj(v.term, off + j, n) for j in range(k)) + ")", ct)
            off += k
        return None

    def rec_access(self, e, env, binds):
        """`root.path` where root is a record-valued expression (a local record, an element of an observation list) and path a
        DECLARED access path of its view: the component. Returns None when e is not of that form."""
        it = self.objlist_item(e, env)
        if it is not None:
            lst, idx = it
            lt = env[lst.id]
            t = self.tmp()
            if idx == 0:
                binds.append((t, "(Py.getIdx %s (0 : Int))" % ident(lst.id)))
            elif idx == -1:
                binds.append((t, "(Py.getIdx %s ((Py.len %s) - (1 : Int)))" % (ident(lst.id), ident(lst.id))))   # X[X.size() - 1]
            else:
                iv = self.expr(idx, env, binds)
                if iv.ty != "I":
                    bad(e, "observation index that is not an int")
                binds.append((t, "(Py.getIdx %s %s)" % (ident(lst.id), iv.term)))
            return Val(t, lt[1])
        st = self.path_step(e)
        if st is None:
            return None
        segs, inner = [st[0]], st[1]
        while True:
            t = self.static_type(inner, env) if (isinstance(inner, ast.Name) or self.objlist_item(inner, env) is not None) else None
            if isinstance(t, tuple) and t[0] == "Rec":
                path = ".".join(reversed(segs))
                if self.path_type(t, path) is not None:
                    root = self.expr_s(inner, env, binds) if not isinstance(inner, ast.Name) else Val(ident(inner.id), t)
                    return self.rec_component(e, root, path)
            st = self.path_step(inner)
            if st is None:
                return None
            segs.append(st[0])
            inner = st[1]

    def view_class(self, view):
        """(unit, class name) the methods of a record of this view are resolved to"""
        path, cls = VIEWS[view]["__class__"]
        u = REG.get(path)
        if u is None or not u.parse():
            bad(None, "the class of view %s is not in a whitelisted file" % view)
        return u, cls

    def lookup_method(self, node, ty, name):
        """the translated method `name` of the class of an object (constructor class) / a record (class of its view)"""
        if ty[0] == "Rec":
            u, cls = self.view_class(ty[1])
        else:
            cls = ty[1]
            u = self.unit if (self.unit.parse() and any(isinstance(n, ast.ClassDef) and n.name == cls for n in self.unit.tree.body)) \
                else find_class_unit(cls)
            if u is None:
                bad(node, "class %s is not defined in a whitelisted file" % cls)
        callee = u.lookup(cls + "." + name, None)
        if callee is not None and u is not self.unit and module_name(u.path) not in self.unit.imports:
            self.unit.imports.append(module_name(u.path))
        return callee

    def obj_terms(self, node, env, binds):
        """class and {attribute: Lean term} of an object-valued expression"""
        if isinstance(node, ast.Name) and self.is_objexpr(node, env):
            x = node.id
            return env[x][1], {k[len(x) + 1:]: ident(x + "_" + k[len(x) + 1:]) for k in env if k.startswith(x + ".")}
        v = self.expr_s(node, env, binds)
        if not (isinstance(v.ty, tuple) and v.ty[0] == "Obj"):
            bad(node, "an object is expected")
        fields = self.unit.ctor_fields(v.ty[1])
        if fields is None:
            bad(node, "class %s has no constructor of the accepted form" % v.ty[1])
        t = self.tmp()
        binds.append((t, "(.ok %s)" % v.term))
        return v.ty[1], {g: tuple_proj(t, i, len(fields)) for i, g in enumerate(fields)}

    def call_translated(self, node, callee, actuals, env, binds):
        """call of a translated function; an actual is an ast node (a value) or ("obj", class, {attribute: term})"""
        if callee is None:
            bad(node, "call of a function that is not (or could not be) translated")
        if len(actuals) != len(callee.params):
            bad(node, "arity / default arguments")
        args = []
        for a, (pn, pt) in zip(actuals, callee.params.items()):
            if pn in callee.records and isinstance(a, tuple) and a[0] == "rparam":
                for fld, ft in callee.records[pn].items():
                    if self.records[a[1]].get(fld) != ft or (isinstance(ft, tuple) and ft[0] == "Obj"):
                        bad(node, "path %s read by %s is not declared (with that type) for %s" % (fld, callee.pyname, a[1]))
                    if not fld.endswith("(col,int)"):
                        args.append(ident(a[1] + "_" + fld.split("(")[0]))
                continue
            if pn in callee.records:
                if isinstance(a, ast.AST) and not self.is_objexpr(a, env):
                    rt = self.static_type(a, env)
                    if isinstance(rt, tuple) and rt[0] == "Rec":
                        a = ("rec", self.expr_s(a, env, binds))
                if isinstance(a, tuple) and a[0] == "rec":
                    # a record passed where the callee declares the attributes / accessors it reads: each must be a declared
                    # path of the record's view, with the same type
                    if pn in callee.objclass:
                        bad(node, "argument %s of %s: a record where an instance of %s is declared" % (pn, callee.pyname, callee.objclass[pn]))
                    for fld, ft in callee.records[pn].items():
                        comp = self.rec_component(node, a[1], fld)
                        if comp is None or comp.ty != ft:
                            bad(node, "path %s read by %s is not declared (with that type) in view %s" % (fld, callee.pyname, a[1].ty[1]))
                        if isinstance(ft, tuple) and ft[0] == "Obj":
                            t = self.tmp()
                            binds.append((t, "(.ok %s)" % comp.term))
                            k = len(flat_types(ft))
                            args.extend(tuple_proj(t, j, k) for j in range(k))
                        else:
                            args.append(comp.term)
                    continue
                if not (isinstance(a, tuple) and a[0] == "obj"):
                    if isinstance(a, ast.AST) and self.is_objexpr(a, env):
                        cls, terms = self.obj_terms(a, env, binds)
                        a = ("obj", cls, terms)
                    else:
                        bad(node, "argument %s of %s must be an object" % (pn, callee.pyname))
                if pn in callee.objclass and callee.objclass[pn] != a[1]:
                    bad(node, "argument %s of %s: a %s where a %s is declared" % (pn, callee.pyname, a[1], callee.objclass[pn]))
                for fld, ft in callee.records[pn].items():
                    if fld not in a[2] or ft != "F":
                        bad(node, "attribute %s read by %s is not available on the argument" % (fld, callee.pyname))
                    args.append(a[2][fld])
                continue
            if isinstance(a, tuple):
                bad(node, "an object where %s expects a value" % callee.pyname)
            v = self.expr(a, env, binds)
            if pt == "F" and v.ty in ("F", "I"):
                args.append(self.as_float(a, v))
            elif v.ty == pt:
                args.append(v.term)
            elif v.ty == ("L", "I") and pt == ("L", "F"):
                self.need("IntCast")           # a list display of ints where floats are read: converted element-wise
                args.append("(List.map (fun (py_k : Int) => ((py_k : Int) : α)) %s)" % v.term)
            else:
                bad(a, "argument %s of %s: a %s where a %s is declared" % (pn, callee.pyname, v.ty, pt))
        if callee.rec_funs:
            bad(node, "call of a function with uninterpreted record methods")
        if callee.uses_fuel:
            self.uses_fuel = True
        self.needs |= callee.needs
        self.ofnat |= callee.ofnat
        self.math |= callee.math
        t = self.tmp()
        cname = callee.lean if callee.unit is self.unit else "TV.Gen.%s.%s" % (module_name(callee.unit.path), callee.lean)
        binds.append((t, "(%s)" % " ".join([cname] + [m for m in MATH_ORDER if m in callee.math]
                                             + (["fuel"] if callee.uses_fuel else []) + args)))
        return Val(t, callee.ret)

    def call(self, e, env, binds):
        if e.keywords or any(isinstance(a, ast.Starred) for a in e.args):
            bad(e, "keyword / starred arguments")
        f = e.func
        # strings are opaque: "..".format(..) and str(..) are not rendered (their arguments are assumed not to raise)
        if isinstance(f, ast.Attribute) and f.attr == "format" and isinstance(f.value, ast.Constant) and isinstance(f.value.value, str):
            return Val(None, "S")
        if isinstance(f, ast.Name) and f.id == "str" and "str" not in env and len(e.args) == 1:
            return Val(None, "S")
        if isinstance(f, ast.Name) and f.id == "float" and "float" not in env and len(e.args) == 1 \
                and isinstance(e.args[0], ast.Constant) and isinstance(e.args[0].value, str):
            word = e.args[0].value.strip().lower()
            if word in ("nan", "inf", "+inf", "infinity", "+infinity"):
                word = "nan" if word == "nan" else "inf"
                self.math.add(word)
                return Val(word, "F")
            bad(e, "float() of a string")
        it = self.isinstance_test(e, env)
        if it is not None:
            return Val("true" if it else "false", "B")
        if isinstance(f, ast.Name) and f.id == "len" and "len" not in env and len(e.args) == 1:
            v = self.expr(e.args[0], env, binds)
            if not (isinstance(v.ty, tuple) and v.ty[0] == "L"):
                bad(e, "len of something that is not a list")
            return Val("(Py.len %s)" % v.term, "I")
        if isinstance(f, ast.Name) and f.id == "range" and "range" not in env and 1 <= len(e.args) <= 2:
            vals = [self.expr(x, env, binds) for x in e.args]       # range(a[, b]) as a value: the list of its ints
            if any(v.ty != "I" for v in vals):
                bad(e, "range() of non-ints")
            return Val("(Py.range %s %s)" % ("(0 : Int)" if len(vals) == 1 else vals[0].term, vals[-1].term), ("L", "I"))
        if ast.unparse(f) == "np.zeros" and "np" not in env and len(e.args) == 1 and isinstance(e.args[0], ast.Tuple) \
                and len(e.args[0].elts) == 2:
            vals = [self.expr(x, env, binds) for x in e.args[0].elts]      # np.zeros((r, c)): r rows of c zeros (TABLES)
            if any(v.ty != "I" for v in vals):
                bad(e, "np.zeros of non-ints")
            self.ofnat.add(0)
            t = self.tmp()          # ValueError on a negative dimension
            binds.append((t, "(Py.zeros2 %s %s (0 : α))" % (vals[0].term, vals[1].term)))
            return Val(t, ("L", ("L", "F")))
        if isinstance(f, ast.Attribute) and ast.unparse(f) in self.opts.get("assume_identity", ()) and len(e.args) == 1 \
                and isinstance(f.value, ast.Name) and f.value.id not in env:
            v = self.expr(e.args[0], env, binds)      # DECLARED identity on a list (e.g. progressbar.progressbar on a range)
            if not (isinstance(v.ty, tuple) and v.ty[0] == "L"):
                bad(e, "%s is only assumed to be the identity on a list" % ast.unparse(f))
            return v
        if isinstance(f, ast.Name) and f.id not in env and f.id in self.opts.get("assume_identity", ()) and len(e.args) == 1:
            # DECLARED in the signature: on this argument the call returns its argument unchanged (e.g. `listify` on a list)
            v = self.expr(e.args[0], env, binds)
            if not (isinstance(v.ty, tuple) and v.ty[0] == "L"):
                bad(e, "%s is only assumed to be the identity on a list" % f.id)
            return v
        # a local bound to a lambda (LAMBDAS, header): the call is the lambda's body on the argument
        if isinstance(f, ast.Name) and isinstance(env.get(f.id), tuple) and env[f.id][0] == "Lam":
            lam = env[f.id][1]
            if len(lam.args.args) != 1 or len(e.args) != 1:
                bad(e, "call of a lambda that does not take exactly one argument")
            pn = lam.args.args[0].arg
            env2 = dict(env)
            if isinstance(e.args[0], ast.Name) and e.args[0].id == pn and pn in env:
                pass                       # f(x) for `lambda x: …`: the parameter is the variable of the same name
            elif pn not in env:
                a = self.expr(e.args[0], env, binds)
                binds.append((ident(pn), "(.ok %s)" % a.term))
                env2[pn] = a.ty
            else:
                bad(e, "the lambda's parameter %s shadows a different variable at the call" % pn)
            return self.expr(lam.body, env2, binds)
        # accessor WITH ARGUMENTS of a declared object parameter: "name(col,int)" = a feature read; otherwise an uninterpreted
        # pure function parameter `<param>_<name>`
        if isinstance(f, ast.Attribute) and isinstance(f.value, ast.Name) and env.get(f.value.id) == ("R", f.value.id) and e.args:
            fields = self.records[f.value.id]
            keys = [k for k in fields if k.startswith(f.attr + "(") and k != f.attr + "()"]
            if len(keys) == 1:
                atys = keys[0][len(f.attr) + 1:-1].replace(" ", "").split(",")
                if len(atys) != len(e.args):
                    bad(e, "arity of the declared accessor %s" % keys[0])
                vals = [self.expr(a, env, binds) for a in e.args]
                terms = [self.coerce(a, v, parse_ty(t)) for a, v, t in zip(e.args, vals, atys)]
                if atys == ["col", "int"]:
                    t = self.tmp()       # FEATURE COLUMNS: the value of the feature named by the first argument at observation i
                    binds.append((t, "(Py.getIdx %s %s)" % (terms[0], terms[1])))
                    return Val(t, fields[keys[0]])
                return Val("(%s %s)" % (ident(f.value.id + "_" + f.attr), " ".join(terms)), fields[keys[0]])
            if self.pyname.count(".") == 1 and f.value.id == list(self.params)[0]:
                # self.m(args) in a method of class C: C.m, translated, on the same declared object (its declared paths must be
                # declared for this function too, with the same types)
                callee = self.unit.lookup(self.pyname.split(".")[0] + "." + f.attr, self)
                return self.call_translated(e, callee, [("rparam", f.value.id)] + list(e.args), env, binds)
        # argument-less accessor of a declared object parameter
        if isinstance(f, ast.Attribute) and isinstance(f.value, ast.Name) and env.get(f.value.id) == ("R", f.value.id):
            fields = self.records[f.value.id]
            if e.args or (f.attr + "()") not in fields:
                bad(e, "method %s.%s is not declared as an accessor in the signature" % (f.value.id, f.attr))
            ft = fields[f.attr + "()"]
            if isinstance(ft, tuple) and ft[0] == "Obj":
                # an accessor declared to return an object: the tuple of its attributes (one parameter each)
                cf = self.unit.ctor_fields(ft[1])
                if cf is None:
                    bad(e, "class %s has no constructor of the accepted form" % ft[1])
                return Val("(" + ", ".join(ident(f.value.id + "_" + f.attr + "_" + g) for g in cf) + ")", ft)
            return Val(ident(f.value.id + "_" + f.attr), ft)
        # X.size() on an observation list
        if isinstance(f, ast.Attribute) and f.attr == "size" and not e.args and isinstance(f.value, ast.Name) \
                and isinstance(env.get(f.value.id), tuple) and env[f.value.id][0] == "L" \
                and isinstance(env[f.value.id][1], tuple) and env[f.value.id][1][0] == "Rec":
            return Val("(Py.len %s)" % ident(f.value.id), "I")
        # method of an object (local object, class-typed parameter, result of an operator), resolved statically by its class
        if isinstance(f, ast.Attribute) and self.is_objexpr(f.value, env):
            cls, terms = self.obj_terms(f.value, env, binds)
            callee = self.lookup_method(e, ("Obj", cls), f.attr)
            return self.call_translated(e, callee, [("obj", cls, terms)] + list(e.args), env, binds)
        # DECLARED uninterpreted method of a record ("record_methods"): a pure function parameter `<View>_<method>` of the record
        if isinstance(f, ast.Attribute) and not e.args and f.attr in self.opts.get("record_methods", {}):
            rt = self.static_type(f.value, env)
            if isinstance(rt, tuple) and rt[0] == "Rec":
                recv = self.expr_s(f.value, env, binds)
                name = ident(rt[1] + "_" + f.attr)
                vt = parse_ty(self.opts["record_methods"][f.attr])
                self.rec_funs[name] = (vt, rt)
                return Val("(%s %s)" % (name, recv.term), vt)
        # method of a record (an observation seen through its declared view), resolved statically to the class of the view
        if isinstance(f, ast.Attribute):
            rt = self.static_type(f.value, env)
            if isinstance(rt, tuple) and rt[0] == "Rec":
                recv = self.expr_s(f.value, env, binds)
                callee = self.lookup_method(e, rt, f.attr)
                return self.call_translated(e, callee, [("rec", recv)] + list(e.args), env, binds)
        # x.is_integer() on a float
        if isinstance(f, ast.Attribute) and f.attr == "is_integer" and not e.args:
            v = self.expr(f.value, env, binds)
            if v.ty != "F":
                bad(e, "is_integer of a non-float")
            self.math.add("floor")
            self.need("IntCast", "LE", "DecidableLE")
            return Val("(Py.isInteger floor %s)" % v.term, "B")
        # math.xxx
        if isinstance(f, ast.Attribute) and isinstance(f.value, ast.Name) and f.value.id == "math" and "math" not in env:
            args = [self.expr(a, env, binds) for a in e.args]
            if f.attr == "fabs":
                if len(args) != 1:
                    bad(e, "math.fabs arity")
                self.need("Sub", "DecidableLT")
                self.ofnat.add(0)
                return Val("(Py.fabs %s)" % self.as_float(e.args[0], args[0]), "F")
            if f.attr in MATH_FUNS and f.attr not in ("trunc", "pi", "pow"):
                if len(args) != MATH_FUNS[f.attr][0]:
                    bad(e, "math.%s arity" % f.attr)
                self.math.add(f.attr)
                return Val("(%s %s)" % (f.attr, " ".join(self.as_float(a, v) for a, v in zip(e.args, args))), MATH_FUNS[f.attr][1])
            bad(e, "math.%s is not in the subset" % f.attr)
        if isinstance(f, ast.Name) and f.id not in env:
            name = f.id
            if name in ("abs", "float", "min", "max", "int", "pow"):
                args = [self.expr(a, env, binds) for a in e.args]
                if name == "pow":
                    if len(args) != 2 or any(a.ty not in ("F", "I") for a in args) or all(a.ty == "I" for a in args):
                        bad(e, "pow is only accepted on two numbers, one of them a float")
                    self.math.add("pow")
                    return Val("(pow %s %s)" % (self.as_float(e.args[0], args[0]), self.as_float(e.args[1], args[1])), "F")
                if name == "int":
                    if len(args) != 1 or args[0].ty not in ("F", "I"):
                        bad(e, "int() of a non-number")
                    if args[0].ty == "I":
                        return args[0]
                    self.math.add("trunc")
                    return Val("(trunc %s)" % args[0].term, "I")
                if name == "abs" and len(args) == 1 and args[0].ty == "I":
                    return Val("(Py.iabs %s)" % args[0].term, "I")
                if name in ("min", "max") and len(args) >= 2 and all(a.ty == "I" for a in args):
                    acc = args[0].term         # CPython: the first among the smallest / greatest
                    for a in args[1:]:
                        acc = "(Py.i%s %s %s)" % (name, acc, a.term)
                    return Val(acc, "I")
                if name in ("min", "max") and len(args) > 2 and all(a.ty in ("F", "I") for a in args):
                    self.need("DecidableLT")
                    acc = self.as_float(e.args[0], args[0])
                    for n_, a in zip(e.args[1:], args[1:]):
                        acc = "(Py.f%s %s %s)" % (name, acc, self.as_float(n_, a))
                    return Val(acc, "F")
                if name == "abs":
                    if len(args) != 1 or args[0].ty != "F":
                        bad(e, "abs of a non-float")
                    self.need("Sub", "DecidableLT")
                    self.ofnat.add(0)
                    return Val("(Py.fabs %s)" % args[0].term, "F")
                if name == "float":
                    if len(args) != 1 or args[0].ty not in ("F", "I"):
                        bad(e, "float() of a non-number")
                    return Val(self.as_float(e.args[0], args[0]), "F")
                if len(args) != 2 or any(a.ty not in ("F", "I") for a in args) or all(a.ty == "I" for a in args):
                    bad(e, "%s is only accepted on two numbers, one of them a float" % name)
                self.need("DecidableLT")
                return Val("(Py.f%s %s %s)" % (name, self.as_float(e.args[0], args[0]), self.as_float(e.args[1], args[1])), "F")
            if name == "list" and not e.args:
                bad(e, "list() outside an assignment")
            cf = self.unit.ctor_fields(name)
            if cf is not None:
                # C(a1, .., an): the object as the tuple of its attributes
                fields, types, terms = self.ctor_args(e, name, list(e.args), env, binds)
                return Val("(" + ", ".join(terms) + ")", ("Obj", name))
            callee = self.unit.lookup(name, self)
        elif isinstance(f, ast.Attribute) and isinstance(f.value, ast.Name) and f.value.id not in env:
            callee = self.unit.lookup(f.value.id + "." + f.attr, self)
        else:
            bad(e, "call of something that is not a plain function name")
        return self.call_translated(e, callee, list(e.args), env, binds)

    def ctor_args(self, node, cls, args, env, binds):
        """terms of the attributes of `cls(args…)` in constructor order; omitted trailing arguments take the defaults of
        `__init__` when these are numeric literals"""
        fields, types, defaults = self.unit.ctor_info(cls)
        if len(args) > len(fields):
            bad(node, "too many constructor arguments")
        terms = []
        for k, f in enumerate(fields):
            if k < len(args):
                a = args[k]
                v = self.expr(a, env, binds)
            else:
                a = defaults[k]
                if a is None:
                    bad(node, "constructor call with a missing argument")
                v = self.expr(a, {}, [])
            if v.ty not in ("F", "I"):
                bad(node, "constructor argument that is not a number")
            if types[f] == "F":
                terms.append(self.as_float(a, v))
            elif v.ty == "I":
                terms.append(v.term)
            else:
                bad(node, "a float where the constructor declares an int")
        return fields, types, terms

    # ---- loop state
    def ret_lean(self):
        if isinstance(self.ret, tuple) and self.ret[0] == "Obj":
            return self.unit.obj_lean_ty(self.ret[1])
        return lean_ty(self.ret)

    def stored_names(self, stmts):
        """names (re)bound anywhere in the statements (assignment, augmented assignment, loop targets), lists changed by
        .append / .remove / a declared append method / `L[i] = e`, objects one of whose attributes is stored, the write log"""
        out = set()
        wl = self.opts.get("write_log")
        for st in stmts:
            for n in ast.walk(st):
                if isinstance(n, ast.Name) and isinstance(n.ctx, ast.Store):
                    out.add(n.id)
                elif isinstance(n, ast.Attribute) and isinstance(n.ctx, ast.Store) and isinstance(n.value, ast.Name):
                    out.add(n.value.id)
                elif isinstance(n, ast.Subscript) and isinstance(n.ctx, ast.Store) and isinstance(n.value, ast.Name):
                    out.add(n.value.id)
                elif isinstance(n, ast.Call) and isinstance(n.func, ast.Attribute) \
                        and n.func.attr in ("append", "remove") + tuple(self.opts.get("append_methods", ())) \
                        and isinstance(n.func.value, ast.Name):
                    out.add(n.func.value.id)
                if wl and isinstance(n, ast.Call) and ast.unparse(n.func) == wl:
                    out.add("py_log")
        return out

    @staticmethod
    def has_jump(stmts):
        return any(isinstance(n, (ast.Return, ast.Break, ast.Continue)) for st in stmts for n in ast.walk(st))

    @staticmethod
    def has_loop(stmts):
        return any(isinstance(n, (ast.For, ast.While)) for st in stmts for n in ast.walk(st))

    def loop_state(self, node, stmts, env, exclude):
        """LOOP STATE of the statements: the variables they (re)bind that exist outside them — in the order in which
        they were first bound in the function (the order of `env`) — followed by the locals DECLARED `unbound[τ]` in the
        signature that they bind and that are not bound yet (carried as `Option τ`, initially `none`). A local object
        contributes one entry per attribute. Returns (entries, env at entry); an entry is (env key, Lean name, type)."""
        stored = self.stored_names(stmts) - set(exclude)
        entries, env_in = [], dict(env)
        for k, t in env.items():
            if "." in k or k not in stored:
                continue
            if isinstance(t, tuple) and t[0] == "R":
                bad(node, "parameter object %s is rebound in a loop" % k)
            if isinstance(t, tuple) and t[0] == "Obj":
                if k in self.readonly:
                    bad(node, "store into an attribute of a parameter (visible to the caller)")
                for key, ft in env.items():
                    if key.startswith(k + "."):
                        entries.append((key, ident(k + "_" + key[len(k) + 1:]), ft))
                continue
            if t == "S":
                bad(node, "a string is rebound in a loop")
            if isinstance(t, tuple) and t[0] == "L" and t[1] is None:
                bad(node, "list %s has no element type at the loop: declare it in the signature" % k)
            entries.append((k, k if k == "py_log" else ident(k), t))
        for k in sorted(stored):
            if k not in env and isinstance(self.locals.get(k), tuple) and self.locals[k][0] == "U":
                entries.append((k, ident(k), self.locals[k]))
                env_in[k] = self.locals[k]
        return entries, env_in

    def pack(self, state, env):
        """the state tuple built from the current bindings"""
        terms = []
        for key, lname, ty in state:
            cur = env.get(key)
            if cur == ty:
                terms.append(lname)
            elif isinstance(ty, tuple) and ty[0] == "U" and cur == ty[1]:
                terms.append("(some %s)" % lname)
            elif ty == "F" and cur == "I":
                self.need("IntCast")
                terms.append("((%s : Int) : α)" % lname)
            else:
                raise Unsupported("variable %s has type %s at the end of the loop body / branch but %s at its start "
                                  "(declare its type in the signature)" % (key, cur, ty))
        if not terms:
            return "()"
        return terms[0] if len(terms) == 1 else "(" + ", ".join(terms) + ")"

    def sigma(self, state):
        if not state:
            return "Unit"
        if len(state) == 1:
            return lean_ty(state[0][2])
        return "(" + " × ".join(lean_ty(t) for _, _, t in state) + ")"

    def unpack(self, state, var):
        """`let` bindings of the state variables from the tuple `var`"""
        n = len(state)
        if n == 1:
            return "let %s : %s := %s;\n" % (state[0][1], lean_ty(state[0][2]), var)
        return "".join("let %s : %s := %s;\n" % (lname, lean_ty(ty), tuple_proj(var, i, n)) for i, (_, lname, ty) in enumerate(state))

    def init_terms(self, state, env):
        """initial state: the current bindings; `none` for a declared maybe-unbound local that is not bound yet"""
        out = []
        for key, lname, ty in state:
            cur = env.get(key)
            if key not in env:
                out.append("(none : %s)" % lean_ty(ty))
            elif cur == ty:
                out.append(lname)
            elif isinstance(ty, tuple) and ty[0] == "U" and cur == ty[1]:
                out.append("(some %s)" % lname)
            else:
                raise Unsupported("variable %s: type %s at loop entry, %s expected" % (key, cur, ty))
        if not out:
            return "()"
        return out[0] if len(out) == 1 else "(" + ", ".join(out) + ")"

    def after_loop(self, n, state, env_after, rest, fresh, K):
        """the code after a loop: the function returned from inside it, or goes on from the final state"""
        sv, rv = "py_s%d" % n, "py_r%d" % n
        return ("match %s with\n| Py.Out.ret py_v => %s\n| Py.Out.done %s =>\n%s%s"
                % (rv, K.ret("py_v"), sv, self.unpack(state, sv), self.block(rest, env_after, fresh, K)))

    def loop_for(self, s, rest, env, fresh, K):
        if s.orelse:
            bad(s, "for ... else")
        it = s.iter
        enum = (isinstance(it, ast.Call) and isinstance(it.func, ast.Name) and it.func.id == "enumerate" and "enumerate" not in env
                and not it.keywords and len(it.args) == 1)
        if enum:
            # for k, x in enumerate(L): the list of pairs (position, element), Py.enumerate
            if not (isinstance(s.target, ast.Tuple) and len(s.target.elts) == 2 and all(isinstance(t, ast.Name) for t in s.target.elts)
                    and s.target.elts[0].id != s.target.elts[1].id):
                bad(s, "enumerate(...) without a target `k, x`")
            tgts = [t.id for t in s.target.elts]
            it = it.args[0]
        else:
            if not isinstance(s.target, ast.Name):
                bad(s, "loop target that is not a plain name")
            tgts = [s.target.id]
        binds = []
        body_stored = self.stored_names(s.body)
        if not enum and isinstance(it, ast.Call) and isinstance(it.func, ast.Name) and it.func.id == "range" and "range" not in env \
                and not it.keywords and 1 <= len(it.args) <= 3:
            vals = [self.expr(a, env, binds) for a in it.args]       # evaluated once, before the loop
            if any(v.ty != "I" for v in vals):
                bad(s, "range() of non-ints")
            if len(vals) == 1:
                lst = "(Py.range (0 : Int) %s)" % vals[0].term
            elif len(vals) == 2:
                lst = "(Py.range %s %s)" % (vals[0].term, vals[1].term)
            else:
                t = self.tmp()
                binds.append((t, "(Py.rangeStep %s %s %s)" % tuple(v.term for v in vals)))
                lst = t
            elt = "I"
        elif isinstance(it, ast.Name) and isinstance(env.get(it.id), tuple) and env[it.id][0] == "L":
            if it.id in body_stored:
                bad(s, "the list iterated over is modified in the loop body")
            if env[it.id][1] is None:
                bad(s, "list %s has no element type: declare it in the signature" % it.id)
            lst, elt = ident(it.id), env[it.id][1]
            if enum:
                lst, elt = "(Py.enumerate %s)" % lst, ("T", ("I", elt))
        else:
            bad(s, "iteration over something that is neither range(...) nor a list variable (nor enumerate of one)")
        state, env_in = self.loop_state(s, s.body, env, set(tgts))
        for tgt in tgts:
            if tgt in env and isinstance(env[tgt], tuple) and env[tgt][0] in ("R", "Obj"):
                bad(s, "loop target shadows an object")
        self.nloop += 1
        n = self.nloop
        sv, rv = "py_s%d" % n, "py_r%d" % n
        env_body = dict(env_in)
        if enum:
            lv = "py_e%d" % n
            env_body[tgts[0]], env_body[tgts[1]] = "I", elt[1][1]
            pre = "let %s : Int := %s.1;\nlet %s : %s := %s.2;\n" % (ident(tgts[0]), lv, ident(tgts[1]), lean_ty(elt[1][1]), lv)
        else:
            lv, pre = ident(tgts[0]), ""
            env_body[tgts[0]] = elt
        body = self.block(list(s.body), env_body, fresh, KLoop(self, state))
        lam = "(fun (%s : %s) (%s : %s) =>\n%s%s%s)" % (lv, lean_ty(elt), sv, self.sigma(state), pre, self.unpack(state, sv), body)
        env_after = {k: t for k, t in env_in.items() if k not in tgts}       # the loop variable is not readable after the loop
        loop = "(Py.forList (ρ := %s) %s %s %s)" % (self.ret_lean(), lam, lst, self.init_terms(state, env))
        return self.close(binds + [(rv, loop)], self.after_loop(n, state, env_after, rest, fresh - set(tgts), K))

    def loop_while(self, s, rest, env, fresh, K):
        if s.orelse:
            bad(s, "while ... else")
        state, env_in = self.loop_state(s, s.body, env, set())
        self.nloop += 1
        n = self.nloop
        sv, rv = "py_s%d" % n, "py_r%d" % n
        K2 = KLoop(self, state)
        t = s.test
        if isinstance(t, ast.Constant) and (t.value is True or (type(t.value) is int and t.value == 1)):
            body = self.block(list(s.body), env_in, fresh, K2)          # while True / while 1
        else:
            b = []
            c = self.expr(t, env_in, b)
            if c.ty != "B":
                bad(s, "loop condition is not a bool (truthiness is not in the subset)")
            body = self.close(b, "if %s then\n%s\nelse\n%s" % (c.term, self.block(list(s.body), env_in, fresh, K2), K2.brk(s, env_in)))
        self.uses_fuel = True
        lam = "(fun (%s : %s) =>\n%s%s)" % (sv, self.sigma(state), self.unpack(state, sv), body)
        loop = "(Py.whileLoop (ρ := %s) %s fuel %s)" % (self.ret_lean(), lam, self.init_terms(state, env))
        return self.close([(rv, loop)], self.after_loop(n, state, dict(env_in), rest, fresh, K))

    def both_bound(self, s, env, fresh):
        """names that are not bound before the `if` s, are not declared `unbound[τ]`, and that BOTH branches bind by a plain
        top-level assignment, with the same type at the end of both branches: {name: type}; None if some name stored by s is
        neither bound before, nor declared, nor of this kind"""
        def top(stmts):
            return {t.id for st in stmts if isinstance(st, ast.Assign) and len(st.targets) == 1 for t in st.targets if isinstance(t, ast.Name)}
        new = [n for n in self.stored_names([s]) if n not in env
               and not (isinstance(self.locals.get(n), tuple) and self.locals[n][0] == "U")]
        if not new:
            return {}
        if not s.orelse or any(n not in top(s.body) or n not in top(s.orelse) for n in new):
            return None
        ends = []
        class KProbe:
            def end(self_, e):
                ends.append(e)
                return "()"
        saved = (self.ntmp, self.nloop, self.size)
        try:
            self.block(list(s.body), dict(env), fresh, KProbe())
            self.block(list(s.orelse), dict(env), fresh, KProbe())
        except Unsupported:
            return None
        finally:
            self.ntmp, self.nloop, self.size = saved
        if len(ends) != 2 or any(ends[0].get(n) is None or ends[0].get(n) != ends[1].get(n) for n in new):
            return None
        return {n: ends[0][n] for n in sorted(new)}

    def if_join(self, s, rest, env, fresh, K):
        """`if` without return / break / continue ahead of a loop: both branches yield the tuple of the variables they bind"""
        state, env_in = self.loop_state(s, [s], env, set())
        for n, ty in self.both_bound(s, env, fresh).items():      # bound by both branches, not before: joined too
            state.append((n, ident(n), ty))
        binds = []
        c = self.expr(s.test, env, binds)
        if c.ty != "B":
            bad(s, "condition is not a bool (truthiness is not in the subset)")
        self.nloop += 1
        jv = "py_j%d" % self.nloop
        KJ = KJoin(self, state)
        a = self.block(list(s.body), env_in, fresh, KJ)
        b = self.block(list(s.orelse), env_in, fresh, KJ)
        joined = "(if %s then\n%s\nelse\n%s)" % (c.term, a, b)
        pre = "".join("let %s : %s := none;\n" % (lname, lean_ty(ty)) for key, lname, ty in state
                      if key not in env and isinstance(ty, tuple) and ty[0] == "U")
        env_out = dict(env_in)
        for key, lname, ty in state:
            env_out.setdefault(key, ty)
        env_out["#rebound"] = frozenset(env_out.get("#rebound", frozenset()) | self.stored_names([s]))
        return pre + self.close(binds + [(jv, joined)], self.unpack(state, jv) + self.block(rest, env_out, fresh, K))

    # ---- statements
    def coerce(self, node, v, want):
        """render v at the declared type `want` (int -> float conversion, `some` for an optional)"""
        if want == "F" and v.ty in ("F", "I"):
            return self.as_float(node, v)
        if v.ty == want:
            return v.term
        if isinstance(want, tuple) and want[0] == "O":
            return "(some %s)" % self.coerce(node, v, want[1])
        bad(node, "a %s where %s is declared" % (v.ty, want))

    def ret_value(self, node, env, binds):
        rt = self.ret[1] if isinstance(self.ret, tuple) and self.ret[0] == "O" else self.ret
        if isinstance(node, ast.Tuple) and isinstance(rt, tuple) and rt[0] == "T" and len(rt[1]) == len(node.elts):
            comps = [self.coerce(x, self.expr(x, env, binds), w) for x, w in zip(node.elts, rt[1])]
            term = "(" + ", ".join(comps) + ")"
            return "(some %s)" % term if rt is not self.ret else term
        return self.coerce(node, self.expr(node, env, binds), self.ret)

    def block(self, stmts, env, fresh, K):
        """fresh: names of lists created in this function (append allowed)"""
        if not stmts:
            return K.end(env)
        s, rest = stmts[0], stmts[1:]
        if isinstance(s, (ast.Assign, ast.AugAssign, ast.For, ast.While)):
            nb = self.stored_names([s])     # names no longer holding the caller's argument from here on (isinstance_test)
            if nb - env.get("#rebound", frozenset()):
                env = dict(env)
                env["#rebound"] = frozenset(env.get("#rebound", frozenset()) | nb)
        if ast.unparse(s) in self.opts.get("assume_noop_stmts", ()):
            return self.block(rest, env, fresh, K)      # DECLARED: this statement has no effect on anything the function reads later
        rc = self.opts.get("result_call")
        if rc and isinstance(s, ast.Expr) and isinstance(s.value, ast.Call) and ast.unparse(s.value.func) == rc \
                and len(s.value.args) == 1 and not s.value.keywords:
            # DECLARED: the function's only effect is this call (a setter on a parameter); its argument is the function's RESULT.
            # Accepted only as the LAST statement of the function body.
            if rest or not isinstance(K, KFun) or s is not self.last_stmt:
                bad(s, "the declared result call is not the last statement of the function")
            return self.block([ast.copy_location(ast.Return(value=s.value.args[0]), s)], env, fresh, K)
        if isinstance(s, ast.Pass):
            return self.block(rest, env, fresh, K)
        if isinstance(s, ast.Raise):
            return "(.error Py.Err.raised)"      # the exception class and its message are not tracked; the rest is unreachable
        if isinstance(s, ast.If) and ast.unparse(s.test) in self.opts.get("assume_true", ()):
            return self.block(list(s.body) + rest, env, fresh, K)       # DECLARED: this test is true whenever it is evaluated
        if isinstance(s, ast.If) and ast.unparse(s.test) in self.opts.get("assume_false", ()):
            return self.block(list(s.orelse) + rest, env, fresh, K)     # DECLARED: this test is false whenever it is evaluated
        if isinstance(s, ast.Assign) and len(s.targets) == 1 and isinstance(s.targets[0], ast.Name):
            x, val = s.targets[0].id, s.value
            if isinstance(val, ast.Lambda):
                # LAMBDAS: x = lambda p: e — kept as syntax; its free names must be names the function never assigns
                a = val.args
                if a.vararg or a.kwarg or a.kwonlyargs or a.posonlyargs or a.defaults or len(a.args) != 1:
                    bad(s, "lambda that does not take exactly one plain parameter")
                free = {n.id for n in ast.walk(val.body) if isinstance(n, ast.Name)} - {a.args[0].arg}
                if free & (self.assigned - set(self.params)) or any(p in free and p in self.assigned for p in self.params):
                    bad(s, "lambda reading a variable that the function assigns")
                env2 = dict(env)
                env2[x] = ("Lam", val)
                return self.block(rest, env2, fresh - {x}, K)
            if isinstance(val, ast.Call) and ast.unparse(val.func) in self.opts.get("assume_identity_fn", ()) and len(val.args) == 1 \
                    and not val.keywords and isinstance(val.args[0], ast.Name) and isinstance(env.get(val.args[0].id), tuple) \
                    and env[val.args[0].id][0] == "Lam":
                env2 = dict(env)      # DECLARED: on the (scalar) arguments it is called with, the result behaves as the lambda itself
                env2[x] = env[val.args[0].id]
                return self.block(rest, env2, fresh - {x}, K)
            if isinstance(val, ast.Call) and not val.args and not val.keywords and ast.unparse(val.func) in self.opts.get("new_list", {}):
                # DECLARED: this constructor call makes an empty collection seen as a list of the declared element type
                env2 = dict(env)
                env2[x] = parse_ty(self.opts["new_list"][ast.unparse(val.func)])
                self.allow_rec = True
                return "let %s : %s := [];\n%s" % (ident(x), lean_ty(env2[x]), self.block(rest, env2, fresh | {x}, K))
        if isinstance(s, ast.Assign) and len(s.targets) == 1 and isinstance(s.targets[0], ast.Subscript) \
                and isinstance(s.targets[0].value, ast.Name):
            # L[i] = e on a list created in this function: Py.setIdx (Python's negative indices, IndexError)
            tgt = s.targets[0]
            x = tgt.value.id
            if x in fresh and env.get(x) == ("L", ("L", "F")) and isinstance(tgt.slice, ast.Tuple) and len(tgt.slice.elts) == 2:
                # T[i, j] = e on a table created in this function by np.zeros: Py.setIdx2 (the value is stored as a float)
                binds = []
                i1 = self.expr(tgt.slice.elts[0], env, binds)
                i2 = self.expr(tgt.slice.elts[1], env, binds)
                if binds or i1.ty != "I" or i2.ty != "I":
                    bad(s, "table index that can raise / is not an int in an item assignment")
                v = self.expr(s.value, env, binds)
                binds.append((ident(x), "(Py.setIdx2 %s %s %s %s)" % (ident(x), i1.term, i2.term, self.coerce(s.value, v, "F"))))
                return self.close(binds, self.block(rest, env, fresh, K))
            if x not in fresh or not (isinstance(env.get(x), tuple) and env[x][0] == "L" and env[x][1] in ("F", "I")):
                bad(s, "item assignment to something that is not a list of numbers created (and typed) in this function")
            if isinstance(tgt.slice, (ast.Slice, ast.Tuple)):
                bad(s, "slice / tuple subscript")
            binds = []
            iv = self.expr(tgt.slice, env, binds)      # CPython: the value first, then the container and the index
            if binds:
                bad(s, "index expression that can raise in an item assignment")
            v = self.expr(s.value, env, binds)
            if iv.ty != "I":
                bad(s, "list index that is not an int")
            term = self.coerce(s.value, v, env[x][1])
            binds.append((ident(x), "(Py.setIdx %s %s %s)" % (ident(x), iv.term, term)))
            return self.close(binds, self.block(rest, env, fresh, K))
        if isinstance(s, ast.Expr):
            v = s.value
            wl = self.opts.get("write_log")
            if wl and isinstance(v, ast.Call) and ast.unparse(v.func) == wl:
                # WRITE LOG: setter(name, i, value) on the declared object appends (i, value) to the log
                if v.keywords or len(v.args) != 3 or not (isinstance(v.args[0], ast.Name) and env.get(v.args[0].id) == "S"
                                                          and v.args[0].id in self.params and v.args[0].id not in self.assigned):
                    bad(s, "logged write whose first argument is not a never-assigned `name` parameter")
                et = self.ret[1][1]
                binds = []
                iv = self.expr(v.args[1], env, binds)
                vv = self.expr(v.args[2], env, binds)
                entry = "(%s, %s)" % (self.coerce(v.args[1], iv, et[0]), self.coerce(v.args[2], vv, et[1]))
                return self.close(binds, "let py_log := py_log ++ [%s];\n%s" % (entry, self.block(rest, env, fresh, K)))
            if isinstance(v, ast.Call) and isinstance(v.func, ast.Attribute) and v.func.attr in self.opts.get("append_methods", ()) \
                    and isinstance(v.func.value, ast.Name) and len(v.args) == 1 and not v.keywords:
                # DECLARED: this method appends its argument to the collection (a list created by a declared `new_list` call)
                v = ast.copy_location(ast.Call(func=ast.Attribute(value=v.func.value, attr="append", ctx=ast.Load()), args=v.args, keywords=[]), v)
                ast.fix_missing_locations(v)
            if isinstance(v, ast.Constant) and isinstance(v.value, str):
                return self.block(rest, env, fresh, K)        # docstring
            if isinstance(v, ast.Call) and isinstance(v.func, ast.Name) and v.func.id == "print" and "print" not in env:
                return self.block(rest, env, fresh, K)        # output only
            if isinstance(v, ast.Call) and isinstance(v.func, ast.Attribute) and v.func.attr == "append" \
                    and isinstance(v.func.value, ast.Name) and len(v.args) == 1 and not v.keywords:
                x = v.func.value.id
                if x not in fresh or x not in env:
                    bad(s, "append to a list that was not created in this function")
                binds = []
                a = self.expr_s(v.args[0], env, binds)
                if a.ty == "S" or (isinstance(a.ty, tuple) and a.ty[0] == "Obj"):
                    bad(s, "append of a string / an object")
                elt = env[x][1]
                if elt is None:
                    elt = a.ty if a.ty != "I" or a.lit is None else None
                    if elt is None:
                        bad(s, "cannot type the list %s from a bare integer literal" % x)
                if elt == "F":
                    term = self.as_float(v.args[0], a)
                elif a.ty == elt:
                    term = a.term
                else:
                    bad(s, "append of a %s to a list of %s" % (a.ty, elt))
                env2 = dict(env)
                env2[x] = ("L", elt)
                lx = ident(x)
                if env[x][1] is None:
                    body = "let %s : %s := [%s];\n%s" % (lx, lean_ty(("L", elt)), term, self.block(rest, env2, fresh, K))
                else:
                    body = "let %s := %s ++ [%s];\n%s" % (lx, lx, term, self.block(rest, env2, fresh, K))
                return self.close(binds, body)
            if isinstance(v, ast.Call) and ast.unparse(v.func) in self.opts.get("assume_noop", ()):
                # DECLARED in the signature: on the declared argument classes this call returns normally and has no effect
                return self.block(rest, env, fresh, K)
            if isinstance(v, ast.Call) and isinstance(v.func, ast.Attribute) and v.func.attr == "remove" \
                    and isinstance(v.func.value, ast.Name) and len(v.args) == 1 and not v.keywords:
                x = v.func.value.id
                if x not in fresh or x not in env or env[x][1] is None:
                    bad(s, "remove from a list that was not created (and typed) in this function")
                binds = []
                a = self.expr(v.args[0], env, binds)
                elt = env[x][1]
                if elt == "F" and a.ty in ("F", "I"):
                    self.need("LE", "DecidableLE")
                    eqv, term = "Py.feq", self.as_float(v.args[0], a)
                elif elt == "I" and a.ty == "I":
                    eqv, term = "(fun (py_a py_b : Int) => decide (py_a = py_b))", a.term
                else:
                    bad(s, "remove of a %s from a list of %s" % (a.ty, elt))
                binds.append((ident(x), "(Py.removeFirst %s %s %s)" % (eqv, ident(x), term)))   # ValueError when absent
                return self.close(binds, self.block(rest, env, fresh, K))
            bad(s, "expression statement")
        if isinstance(s, ast.Return) and isinstance(s.value, ast.Call) and ast.unparse(s.value.func) in self.opts.get("result_through", ()) \
                and len(s.value.args) == 1 and not s.value.keywords:
            # DECLARED: `return g(T)` — the translation returns T itself (what g makes of it is outside the translation)
            return self.block([ast.copy_location(ast.Return(value=s.value.args[0]), s)] + rest, env, fresh, K)
        if isinstance(s, ast.Return):
            if s.value is None or (isinstance(s.value, ast.Constant) and s.value.value is None):
                if isinstance(self.ret, tuple) and self.ret[0] == "O":
                    return K.ret("none")
                bad(s, "returns None but the declared return type is not optional")
            if isinstance(self.ret, tuple) and self.ret[0] == "Obj":
                fields = self.unit.ctor_fields(self.ret[1])
                if isinstance(s.value, ast.Name) and env.get(s.value.id) == ("Obj", self.ret[1]):
                    x = s.value.id
                    return K.ret("(%s)" % ", ".join(ident(x + "_" + f) for f in fields))
                binds = []
                v = self.expr_s(s.value, env, binds)
                if v.ty != self.ret:
                    bad(s, "returns a %s where %s is declared" % (v.ty, self.ret))
                return self.close(binds, K.ret(v.term)[1:-1])
            binds = []
            term = self.ret_value(s.value, env, binds)
            return self.close(binds, K.ret(term)[1:-1])
        if isinstance(s, ast.Assign):
            if len(s.targets) != 1:
                bad(s, "chained assignment")
            tgt = s.targets[0]
            if isinstance(tgt, ast.Attribute) and isinstance(tgt.value, ast.Name) and isinstance(env.get(tgt.value.id), tuple) \
                    and env[tgt.value.id][0] == "Obj":
                # store into an attribute of an object created in this function (no alias of it can exist)
                key = tgt.value.id + "." + tgt.attr
                if key not in env:
                    bad(s, "attribute %s is not set by the constructor" % key)
                if tgt.value.id in self.readonly:
                    bad(s, "store into an attribute of a parameter (visible to the caller)")
                binds = []
                v = self.expr(s.value, env, binds)
                if not (v.ty == env[key] or (env[key] == "F" and v.ty == "I")):
                    bad(s, "attribute %s changes type" % key)
                term = self.as_float(s.value, v) if env[key] == "F" else v.term
                body = "let %s : %s := %s;\n%s" % (ident(tgt.value.id + "_" + tgt.attr), lean_ty(env[key]), term, self.block(rest, env, fresh, K))
                return self.close(binds, body)
            if isinstance(tgt, ast.Name) and isinstance(s.value, ast.Call) and isinstance(s.value.func, ast.Name) \
                    and s.value.func.id not in env and self.unit.ctor_fields(s.value.func.id) is not None:
                # x = C(a1, .., an) for a class C of this file whose __init__ only stores its parameters
                x, cls = tgt.id, s.value.func.id
                if s.value.keywords:
                    bad(s, "constructor call with keyword arguments")
                binds = []
                fields, types, terms = self.ctor_args(s, cls, list(s.value.args), env, binds)
                env2 = {k: t for k, t in env.items() if not k.startswith(x + ".")}
                env2[x] = ("Obj", cls)
                self.readonly.discard(x)
                lets = []
                for f, term in zip(fields, terms):
                    env2[x + "." + f] = types[f]
                    lets.append("let %s : %s := %s" % (ident(x + "_" + f), lean_ty(types[f]), term))
                return self.close(binds, ";\n".join(lets) + ";\n" + self.block(rest, env2, fresh - {x}, K))
            if isinstance(tgt, ast.Name) and (isinstance(s.value, ast.Call) and isinstance(s.value.func, ast.Attribute)
                                              or isinstance(s.value, ast.BinOp) and self.is_objexpr(s.value, env)):
                binds = []
                v = self.expr_s(s.value, env, binds)
                if isinstance(v.ty, tuple) and v.ty[0] == "Obj":
                    x, cls = tgt.id, v.ty[1]
                    fields = self.unit.ctor_fields(cls)
                    if fields is None:
                        bad(s, "class %s has no constructor of the accepted form" % cls)
                    t = self.tmp()
                    ftypes = self.unit.ctor_info(cls)[1]
                    lets = ["let %s : %s := %s" % (t, self.unit.obj_lean_ty(cls), v.term)]
                    env2 = {k: ty for k, ty in env.items() if not k.startswith(x + ".")}
                    env2[x] = ("Obj", cls)
                    self.readonly.discard(x)
                    for i, g in enumerate(fields):
                        env2[x + "." + g] = ftypes[g]
                        lets.append("let %s : %s := %s" % (ident(x + "_" + g), lean_ty(ftypes[g]), tuple_proj(t, i, len(fields))))
                    return self.close(binds, ";\n".join(lets) + ";\n" + self.block(rest, env2, fresh - {x}, K))
            if isinstance(tgt, ast.Name):
                x = tgt.id
                # list creation
                val = s.value
                if (isinstance(val, ast.Call) and isinstance(val.func, ast.Name) and val.func.id == "list" and not val.args
                        and not val.keywords and "list" not in env) or (isinstance(val, ast.List) and not val.elts):
                    env2 = dict(env)
                    if isinstance(self.locals.get(x), tuple) and self.locals[x][0] == "L":
                        env2[x] = self.locals[x]     # element type declared in the signature
                        return "let %s : %s := [];\n%s" % (ident(x), lean_ty(env2[x]), self.block(rest, env2, fresh | {x}, K))
                    env2[x] = ("L", None)       # element type fixed by the first append
                    return self.block(rest, env2, fresh | {x}, K)
                binds = []
                v = self.expr_s(val, env, binds)
                ty = v.ty
                term = v.term
                if x in self.locals:
                    want = self.locals[x]
                    if isinstance(want, tuple) and want[0] == "U":
                        want = want[1]      # declared maybe-unbound: after this assignment it is bound, of type τ
                    if want == "F" and ty in ("F", "I"):
                        term, ty = self.as_float(val, v), "F"
                    elif want == ("L", "F") and ty == ("L", "I") and isinstance(val, ast.List):
                        b2 = []
                        term = "[" + ", ".join(self.as_float(x, self.expr(x, env, b2)) for x in val.elts) + "]"
                        ty = ("L", "F")       # `S = [0]` later extended with floats
                    elif want == ("L", "F") and ty == ("L", "I") and isinstance(val, ast.BinOp) and isinstance(val.left, ast.List):
                        b2 = []       # `values = [0] * n` later filled with floats
                        term = "(Py.replicate %s %s)" % (self.expr(val.right, env, b2).term,
                                                         self.as_float(val.left.elts[0], self.expr(val.left.elts[0], env, b2)))
                        ty = ("L", "F")
                    elif want == "I" and ty == "F":
                        pass        # declared int for its integer-literal bindings; this binding is a float (dynamic typing)
                    elif want != ty:
                        bad(s, "local %s is declared %s but is assigned a %s" % (x, want, ty))
                elif ty == "I" and v.lit is not None:
                    bad(s, "local %s is bound to a bare integer literal: declare it int or float in the signature" % x)
                if isinstance(ty, tuple) and ty[0] == "L" and ty[1] is None:
                    bad(s, "alias of an untyped empty list")
                if ty == "S":
                    if binds:
                        bad(s, "string-valued expression with a part that can raise")
                    env2 = dict(env)
                    env2[x] = "S"           # usable only as an argument of print(): nothing accepts an S
                    return self.block(rest, env2, fresh - {x}, K)
                env2 = dict(env)
                env2[x] = ty
                fresh2 = (fresh | {x}) if (isinstance(val, ast.List) or (isinstance(val, ast.BinOp) and isinstance(val.left, ast.List))
                                           or (isinstance(val, ast.Call) and ast.unparse(val.func) == "np.zeros")) \
                    else (fresh - {x})
                body = "let %s : %s := %s;\n%s" % (ident(x), lean_ty(ty), term, self.block(rest, env2, fresh2, K))
                return self.close(binds, body)
            if isinstance(tgt, ast.Tuple) and all(isinstance(t, ast.Name) for t in tgt.elts):
                binds = []
                v = self.expr(s.value, env, binds)
                if not (isinstance(v.ty, tuple) and v.ty[0] == "T" and len(v.ty[1]) == len(tgt.elts)):
                    bad(s, "unpacking of something that is not a tuple of the same length")
                t = self.tmp()
                env2 = dict(env)
                lets = ["let %s : %s := %s" % (t, lean_ty(v.ty), v.term)]
                names = [n.id for n in tgt.elts]
                if len(set(names)) != len(names):
                    bad(s, "repeated name in unpacking")
                for i, n in enumerate(names):
                    env2[n] = v.ty[1][i]
                    lets.append("let %s : %s := %s" % (ident(n), lean_ty(v.ty[1][i]), tuple_proj(t, i, len(names))))
                body = ";\n".join(lets) + ";\n" + self.block(rest, env2, fresh - set(names), K)
                return self.close(binds, body)
            bad(s, "assignment target")
        if isinstance(s, ast.AugAssign):
            if isinstance(s.target, ast.Name):
                tstore, tload = ast.Name(id=s.target.id, ctx=ast.Store()), ast.Name(id=s.target.id, ctx=ast.Load())
            elif isinstance(s.target, ast.Subscript) and isinstance(s.target.value, ast.Name):
                # L[i] op= e: L[i] is read, e evaluated, the result stored at the same (pure) index
                tstore = ast.Subscript(value=ast.Name(id=s.target.value.id, ctx=ast.Load()), slice=s.target.slice, ctx=ast.Store())
                tload = ast.Subscript(value=ast.Name(id=s.target.value.id, ctx=ast.Load()), slice=s.target.slice, ctx=ast.Load())
            elif isinstance(s.target, ast.Attribute) and isinstance(s.target.value, ast.Name):
                tstore = ast.Attribute(value=ast.Name(id=s.target.value.id, ctx=ast.Load()), attr=s.target.attr, ctx=ast.Store())
                tload = ast.Attribute(value=ast.Name(id=s.target.value.id, ctx=ast.Load()), attr=s.target.attr, ctx=ast.Load())
            else:
                bad(s, "augmented assignment target")
            new = ast.Assign(targets=[tstore], value=ast.BinOp(left=tload, op=s.op, right=s.value))
            ast.copy_location(new, s)
            ast.fix_missing_locations(new)
            return self.block([new] + rest, env, fresh, K)
        if isinstance(s, ast.For):
            return self.loop_for(s, rest, env, fresh, K)
        if isinstance(s, ast.While):
            return self.loop_while(s, rest, env, fresh, K)
        if isinstance(s, ast.Break):
            return K.brk(s, env)           # statements after it on the same path are unreachable
        if isinstance(s, ast.Continue):
            return K.cont(s, env)
        if isinstance(s, ast.If):
            st = self.static_bool(s.test, env)
            if st is not None:
                # the test is an isinstance test decided by the declared kinds: only the branch taken is translated
                return self.block(list(s.body if st else s.orelse) + rest, env, fresh, K)
        if isinstance(s, ast.If) and self.has_loop(rest) and not self.has_jump([s]) and self.both_bound(s, env, fresh) is not None:
            return self.if_join(s, rest, env, fresh, K)
        if isinstance(s, ast.If):
            binds = []
            c = self.expr(s.test, env, binds)
            if c.ty != "B":
                bad(s, "condition is not a bool (truthiness is not in the subset)")
            a = self.block(list(s.body) + rest, env, fresh, K)
            b = self.block(list(s.orelse) + rest, env, fresh, K)
            return self.close(binds, "if %s then\n%s\nelse\n%s" % (c.term, a, b))
        bad(s, "statement %s" % type(s).__name__)

    def translate(self, fdef):
        a = fdef.args
        if a.vararg or a.kwarg or a.kwonlyargs or a.posonlyargs:
            raise Unsupported("parameter kinds")
        names = [x.arg for x in a.args]
        if names != list(self.params):
            raise Unsupported("parameters are %s, the declared signature has %s" % (names, list(self.params)))
        for d in fdef.decorator_list:
            if not (isinstance(d, ast.Name) and d.id == "staticmethod"):
                raise Unsupported("decorator")
        env = dict(self.params)
        self.readonly = set(self.objclass)       # attributes of a parameter object are never stored into
        for k in self.objclass:
            for fld, ft in self.records[k].items():
                if fld.endswith("()"):
                    raise Unsupported("accessor in a class-typed parameter")
                env[k + "." + fld] = ft
        self._env_names = set(self.params)
        self.assigned = {n.id for n in ast.walk(fdef) if isinstance(n, ast.Name) and isinstance(n.ctx, ast.Store)}
        self.last_stmt = fdef.body[-1]
        if self.opts.get("write_log"):
            # WRITE LOG: the declared setter's calls are the function's only effect; their (index, value) pairs, in order, are its result
            if not (isinstance(self.ret, tuple) and self.ret[0] == "L" and isinstance(self.ret[1], tuple) and self.ret[1][0] == "T"
                    and len(self.ret[1][1]) == 2) or any(isinstance(n, ast.Return) for n in ast.walk(fdef)):
                raise Unsupported("a function with a write log must be declared to return list[tuple[int,τ]] and have no return statement")
            env["py_log"] = self.ret
        body = self.block(list(fdef.body), env, frozenset(), KFun(self))
        if self.opts.get("write_log"):
            body = "let py_log : %s := [];\n%s" % (lean_ty(self.ret), body)
        alltypes = [t for p, t in self.params.items() if p not in self.records] + [self.ret]
        for r in self.records.values():
            alltypes += list(r.values())
        alpha = any(uses_alpha(t) for t in alltypes) or self.needs or self.ofnat or self.math
        sig = []
        if alpha:
            sig.append("{α : Type}")
            for c in INST_ORDER:
                if c in self.needs:
                    sig.append("[%s α]" % c)
            for n in sorted(self.ofnat):
                sig.append("[OfNat α %d]" % n)
        for m in MATH_ORDER:
            if m in self.math:
                sig.append("(%s : %s)" % (m, MATH_FUNS[m][2]))
        if self.uses_fuel:
            sig.append("(fuel : Nat)")
        for p, t in self.params.items():
            if p in self.records:
                for f, ft in self.records[p].items():
                    base = p + "_" + f.split("(")[0]
                    if not f.endswith("()") and f.endswith(")"):
                        atys = f[f.index("(") + 1:-1].replace(" ", "").split(",")
                        if atys != ["col", "int"]:       # an uninterpreted pure function of the object
                            sig.append("(%s : %s)" % (ident(base), " → ".join([lean_ty(parse_ty(t)) for t in atys] + [lean_ty(ft)])))
                        continue
                    if isinstance(ft, tuple) and ft[0] == "Obj":
                        fields = self.unit.ctor_fields(ft[1])
                        if fields is None:
                            raise Unsupported("class %s has no constructor of the accepted form" % ft[1])
                        ftypes = self.unit.ctor_info(ft[1])[1]
                        for g in fields:
                            sig.append("(%s : %s)" % (ident(base + "_" + g), lean_ty(ftypes[g])))
                    else:
                        sig.append("(%s : %s)" % (ident(base), lean_ty(ft)))
            elif t != "S":       # a `name` parameter is opaque: no Lean parameter
                sig.append("(%s : %s)" % (ident(p), lean_ty(t)))
        for v, (vt, argt) in sorted(self.rec_funs.items()):
            sig.append("(%s : %s → %s)" % (v, lean_ty(argt), lean_ty(vt)))
        if isinstance(self.ret, tuple) and self.ret[0] == "Obj":
            fields = self.unit.ctor_fields(self.ret[1])
            if fields is None:
                raise Unsupported("class %s has no constructor of the accepted form" % self.ret[1])
            rty = self.unit.obj_lean_ty(self.ret[1])
        else:
            rty = lean_ty(self.ret)
        head = "def %s %s : Py.M %s :=\n" % (self.lean, " ".join(sig), rty)
        return head + "".join("  " + l + "\n" for l in body.split("\n"))


# ----------------------------------------------- one file -----------------------------------------------
class Unit:
    """one python source file -> one Lean module"""
    def __init__(self, repo, path, entries, registry=None):
        self.path, self.entries = path, entries
        self.src = os.path.join(repo, "tracklib", path)
        self.done = {}      # lean name -> FnTranslator (translated) | None (failed)
        self.out = []       # (lean text | comment)
        self.defs = {}
        self.tree = None
        self.parse_error = None
        self.registry = registry if registry is not None else {}      # path -> Unit (cross-file calls)
        self.imports = []   # other generated modules this one calls into

    def parse(self):
        if self.tree is None and self.parse_error is None:
            try:
                with open(self.src) as fh, warnings.catch_warnings():
                    warnings.simplefilter("ignore", SyntaxWarning)      # invalid escape sequences in tracklib's docstrings
                    self.tree = ast.parse(fh.read())
            except (OSError, SyntaxError) as ex:
                self.parse_error = str(ex).replace("\n", " ")
        return self.tree is not None

    def find(self, qual):
        parts = qual.split(".")
        body = self.tree.body
        for i, p in enumerate(parts):
            hit = [n for n in body if isinstance(n, (ast.FunctionDef, ast.ClassDef)) and n.name == p]
            if len(hit) != 1:
                return None
            node = hit[0]
            if i < len(parts) - 1:
                if not isinstance(node, ast.ClassDef):
                    return None
                body = node.body
            else:
                return node if isinstance(node, ast.FunctionDef) else None
        return None

    def constant(self, name):
        """defining expression of a module-level name bound exactly once at module level (and never declared global)"""
        hits = []
        for n in self.tree.body:
            if isinstance(n, ast.Assign) and any(isinstance(t, ast.Name) and t.id == name for t in n.targets):
                hits.append(n.value if len(n.targets) == 1 else None)
            elif isinstance(n, ast.AnnAssign) and isinstance(n.target, ast.Name) and n.target.id == name:
                hits.append(n.value)
            elif isinstance(n, ast.AugAssign) and isinstance(n.target, ast.Name) and n.target.id == name:
                hits.append(None)
        for n in ast.walk(self.tree):
            if isinstance(n, (ast.Global, ast.Nonlocal)) and name in n.names:
                return None
        if len(hits) != 1 or hits[0] is None:
            return None
        return hits[0]

    def ctor_info(self, cls):
        """ctor_info_local of the class in this file, else in the unique whitelisted file that defines it"""
        if self.parse() and any(isinstance(n, ast.ClassDef) and n.name == cls for n in self.tree.body):
            return self.ctor_info_local(cls)
        u = find_class_unit(cls)
        return u.ctor_info_local(cls) if u is not None else None

    def ctor_info_local(self, cls):
        """(attribute names in parameter order, {attribute: type}, [default expression | None per parameter]) of a class
        of this file whose __init__ is `self.a = p` exactly once for each of its parameters p (any order; docstring
        allowed), possibly wrapped as `if isinstance(<first parameter>, str): <anything> else: <the stores>` (the string
        form of the constructor is never taken: the translator only accepts numeric arguments); None otherwise.
        The type of an attribute is the annotation of its parameter when that is `int`, otherwise float."""
        hit = [n for n in self.tree.body if isinstance(n, ast.ClassDef) and n.name == cls]
        if len(hit) != 1:
            return None
        inits = [n for n in hit[0].body if isinstance(n, ast.FunctionDef) and n.name == "__init__"]
        if len(inits) != 1 or inits[0].decorator_list:
            return None
        a = inits[0].args
        if a.vararg or a.kwarg or a.kwonlyargs or a.posonlyargs or not a.args:
            return None
        params = [x.arg for x in a.args]
        body = [st for st in inits[0].body
                if not (isinstance(st, ast.Expr) and isinstance(st.value, ast.Constant) and isinstance(st.value.value, str))]
        if len(body) == 1 and isinstance(body[0], ast.If) and len(params) > 1:
            t = body[0].test
            if (isinstance(t, ast.Call) and isinstance(t.func, ast.Name) and t.func.id == "isinstance" and len(t.args) == 2
                    and not t.keywords and isinstance(t.args[0], ast.Name) and t.args[0].id == params[1]
                    and isinstance(t.args[1], ast.Name) and t.args[1].id == "str"):
                body = list(body[0].orelse)
        attr_of = {}
        for st in body:
            ok = (isinstance(st, ast.Assign) and len(st.targets) == 1 and isinstance(st.targets[0], ast.Attribute)
                  and isinstance(st.targets[0].value, ast.Name) and st.targets[0].value.id == params[0]
                  and isinstance(st.value, ast.Name) and st.value.id in params[1:] and st.value.id not in attr_of)
            if not ok:
                return None
            attr_of[st.value.id] = st.targets[0].attr
        if len(body) != len(params) - 1:
            return None
        fields = [attr_of[p] for p in params[1:]]
        if len(set(fields)) != len(fields):
            return None
        types = {}
        for x in a.args[1:]:
            ann = x.annotation
            types[attr_of[x.arg]] = "I" if (isinstance(ann, ast.Name) and ann.id == "int") else "F"
        defaults = [None] * (len(params) - 1 - len(a.defaults)) + list(a.defaults)
        return fields, types, defaults

    def ctor_fields(self, cls):
        info = self.ctor_info(cls)
        return None if info is None else info[0]

    def obj_lean_ty(self, cls):
        fields, types, _ = self.ctor_info(cls)
        return "(" + " × ".join(lean_ty(types[f]) for f in fields) + ")"

    def class_constant(self, cls, name):
        """defining expression of `name`, bound exactly once in the body of class `cls` of this file (class-level
        constant, e.g. ObsTime.UNIX_BASE_YEAR); a private name `__x` is looked up as written"""
        hit = [n for n in self.tree.body if isinstance(n, ast.ClassDef) and n.name == cls]
        if len(hit) != 1:
            return None
        vals = [n.value for n in hit[0].body if isinstance(n, ast.Assign) and len(n.targets) == 1
                and isinstance(n.targets[0], ast.Name) and n.targets[0].id == name]
        stores = [n for n in ast.walk(self.tree) if isinstance(n, ast.Attribute) and isinstance(n.ctx, ast.Store) and n.attr == name]
        if len(vals) != 1 or stores:
            return None
        return vals[0]

    def lookup(self, pyname, caller):
        entry = [e for e in self.entries if e[1] == pyname]
        if not entry:
            # DECLARED cross-file call: {"imports": {name: "pkg/file.py"}} in the caller's signature, accepted only if this file
            # binds the name by a `from … import name` (and nowhere else at module level); the callee is the whitelisted
            # function `name` of that file (that the package re-exports that very function is part of the declaration)
            path = caller.opts.get("imports", {}).get(pyname) if caller is not None else None
            other = self.registry.get(path)
            if other is None or other is self or not other.parse():
                return None
            bound = [n for n in self.tree.body if isinstance(n, ast.ImportFrom) and any(a.name == pyname and a.asname is None for a in n.names)]
            rebound = [n for n in self.tree.body if isinstance(n, (ast.FunctionDef, ast.ClassDef)) and n.name == pyname] + \
                      [n for n in self.tree.body if isinstance(n, ast.Assign) and any(isinstance(t, ast.Name) and t.id == pyname for t in n.targets)]
            if len(bound) != 1 or rebound:
                return None
            callee = other.lookup(pyname, None)
            if callee is not None and module_name(other.path) not in self.imports:
                self.imports.append(module_name(other.path))
            return callee
        if len(entry) > 1:
            # several translations of one function under different declared argument types (VARIANTS): the caller's
            # signature says which one its call is, {"variants": {python name: lean name}}
            want = caller.opts.get("variants", {}).get(pyname) if caller is not None else None
            entry = [e for e in entry if e[2] == want]
            if len(entry) != 1:
                return None
        if entry[0][2] not in self.done:
            self.run(entry[0])
        return self.done[entry[0][2]]

    def run(self, entry):
        pyname = entry[1]
        if entry[2] in self.done:
            return
        self.done[entry[2]] = None   # a recursive call finds None: recursion is not in the subset
        try:
            node = self.find(pyname)
            if node is None:
                raise Unsupported("no unique function %s in %s" % (pyname, self.path))
            tr = FnTranslator(self, entry)
            text = tr.translate(node)
            self.done[entry[2]] = tr
            self.out.append("/-- `%s` of tracklib/%s -/\n%s" % (pyname, self.path, text))
        except Unsupported as ex:
            self.out.append("-- NOT TRANSLATED: `%s` of tracklib/%s: %s\n" % (pyname, self.path, ex))

    def render(self):
        mod = module_name(self.path)
        head = ("import TracklibVerif.Model.PyPrelude\n%s"
                "/-! GENERATED by tools/py2lean.py from tracklib/%s — do not edit, not under version control.\n"
                "Semantics of every `Py.*` operation: lean/TracklibVerif/Model/PyPrelude.lean. -/\n"
                "set_option linter.unusedVariables false\n"
                "namespace TV.Gen.%s\nopen TV\n\n")
        if not self.parse():
            return head % ("", self.path, mod) + "-- NOT TRANSLATED: cannot read / parse the source: %s\n\nend TV.Gen.%s\n" % (self.parse_error, mod)
        for e in self.entries:
            self.run(e)
        imps = "".join("import TracklibVerif.Gen.%s\n" % m for m in self.imports)
        return head % (imps, self.path, mod) + "\n".join(self.out) + "\nend TV.Gen.%s\n" % mod


def module_name(path):
    base = os.path.basename(path)[:-3]
    return "".join(p.capitalize() for p in base.split("_"))


def main():
    ap = argparse.ArgumentParser()
    ap.add_argument("--repo", default=os.environ.get("TRACKLIB_REPO", "/repo"))
    ap.add_argument("--out", default=os.path.join(VERIF, "lean", "TracklibVerif", "Gen"))
    ap.add_argument("--print", action="store_true", help="write the generated modules to stdout instead")
    a = ap.parse_args()
    files = {}
    for e in WHITELIST:
        files.setdefault(e[0], []).append(e)
    outs = {}
    registry = {}
    for path, entries in files.items():
        registry[path] = Unit(a.repo, path, entries, registry)
    REG.clear()
    REG.update(registry)
    for path, u in registry.items():
        outs[module_name(path) + ".lean"] = u.render()
    if a.print:
        for k, v in outs.items():
            print("-- ==== %s ====\n%s" % (k, v))
        return 0
    os.makedirs(a.out, exist_ok=True)
    for f in os.listdir(a.out):
        if f.endswith(".lean") and f not in outs:
            os.remove(os.path.join(a.out, f))
    changed = 0
    for k, v in outs.items():
        p = os.path.join(a.out, k)
        old = None
        if os.path.exists(p):
            with open(p) as fh:
                old = fh.read()
        if old != v:
            with open(p, "w") as fh:
                fh.write(v)
            changed += 1
    nt = sum(v.count("-- NOT TRANSLATED") for v in outs.values())
    print("py2lean: %d modules (%d rewritten), %d functions not translated" % (len(outs), changed, nt))
    return 0


if __name__ == "__main__":
    sys.exit(main())
