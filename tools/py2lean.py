#!/venv/bin/python
"""py2lean: translate a whitelisted set of pure tracklib functions from /repo's CURRENT source into Lean 4
definitions (lean/TracklibVerif/Gen/*.lean), regenerated on every run.  [stub — filled in by the tie work]

    tools/py2lean.py [--repo /repo]
"""
import sys
sys.exit(0)
