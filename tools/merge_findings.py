#!/venv/bin/python
"""Adds the entries prepared by the per-property work (findings/<Cnn>.json) to known_findings.json
(idempotent; an entry is identified by property + class + witness). Run by hand, never at check time."""
import json, os, glob
V = os.path.dirname(os.path.dirname(os.path.abspath(__file__)))
kf = json.load(open(os.path.join(V, "known_findings.json")))
n = 0
fixed_classes = set()
for f in sorted(glob.glob(os.path.join(V, "findings", "*.json"))):
    d = json.load(open(f))
    for e in (d if isinstance(d, list) else d.get("entries", [d])):
        if e.get("status") == "fixed" and e.get("class"):
            fixed_classes.add((e.get("property"), e.get("class")))
# a repaired defect is no longer a finding: its `finding` entries go, the `fixed` entry (which suppresses nothing) comes
before = len(kf["entries"])
kf["entries"] = [e for e in kf["entries"]
                 if not (e.get("status") == "finding" and (e.get("property"), e.get("class")) in fixed_classes)]
if before != len(kf["entries"]):
    print("removed", before - len(kf["entries"]), "finding entries whose class is now fixed")
have = {(e.get("property"), e.get("class"), json.dumps(e.get("witness"), sort_keys=True)) for e in kf["entries"]}
for f in sorted(glob.glob(os.path.join(V, "findings", "*.json"))):
    d = json.load(open(f))
    es = d if isinstance(d, list) else d.get("entries", [d])
    for e in es:
        k = (e.get("property"), e.get("class"), json.dumps(e.get("witness"), sort_keys=True))
        if k not in have:
            kf["entries"].append(e); have.add(k); n += 1
json.dump(kf, open(os.path.join(V, "known_findings.json"), "w"), indent=1, ensure_ascii=False)
print("added", n, "entries; total", len(kf["entries"]))
