#!/venv/bin/python
"""Self-test of tools/py2lean.py (not part of ./check): the generated definitions, instantiated at `Float` and
evaluated by Lean, are compared bit for bit with the real Python functions of /repo on random and edge inputs.
A disagreement means a semantic choice of PyPrelude.lean / a rule of py2lean.py is wrong for doubles.

    tools/py2lean_selftest.py [--repo /repo] [--n 300]
"""
import argparse, math, os, random, struct, subprocess, sys, io, contextlib
VERIF = os.path.dirname(os.path.dirname(os.path.abspath(__file__)))
LEAN = os.path.join(VERIF, "lean")


def bits(x):
    return struct.unpack("<Q", struct.pack("<d", float(x)))[0]


def lf(x):
    """a double as a Lean term (exact)"""
    return "(Float.ofBits %d)" % bits(x)


def lflist(xs):
    return "[" + ", ".join(lf(x) for x in xs) + "]"


PRE = '''import TracklibVerif.Gen.Geometry
import TracklibVerif.Gen.ObsTime
import TracklibVerif.Gen.SpatialIndex
import TracklibVerif.Gen.Raster
import TracklibVerif.Gen.ObsCoords
import TracklibVerif.Model.Geo
open TV TV.Py
def FT := TV.Geo.floatTrig
instance : IntCast Float := ⟨Float.ofInt⟩
def fFloor (x : Float) : Int := (Float.floor x).toInt64.toInt
def fTrunc (x : Float) : Int := x.toInt64.toInt

def sf (x : Float) : String := if x.isNaN then "nan" else toString x.toBits
def se : Err → String | .zerodiv => "err:zerodiv" | .index => "err:index" | .type => "err:type" | .unbound => "err:unbound" | .exit => "err:exit"
def r1 : M Float → String | .ok v => sf v | .error e => se e
def r2 : M (Float × Float) → String | .ok v => sf v.1 ++ " " ++ sf v.2 | .error e => se e
def r3 : M (Float × Float × Float) → String | .ok v => sf v.1 ++ " " ++ sf v.2.1 ++ " " ++ sf v.2.2 | .error e => se e
def rl : M (List Float) → String | .ok v => " ".intercalate (v.map sf) | .error e => se e
def rb : M Bool → String | .ok v => toString v | .error e => se e
def ro2 : M (Option (Float × Float)) → String | .ok none => "none" | .ok (some v) => sf v.1 ++ " " ++ sf v.2 | .error e => se e
def roi : M (Option (Int × Int)) → String | .ok none => "none" | .ok (some v) => toString v.1 ++ " " ++ toString v.2 | .error e => se e
def ri : M Int → String | .ok v => toString v | .error e => se e
'''


def pf(x):
    return "nan" if x != x else str(bits(x))


def perr(ex):
    return {"ZeroDivisionError": "err:zerodiv", "IndexError": "err:index", "TypeError": "err:type",
            "UnboundLocalError": "err:unbound"}.get(type(ex).__name__, "err:" + type(ex).__name__)


def main():
    ap = argparse.ArgumentParser()
    ap.add_argument("--repo", default=os.environ.get("TRACKLIB_REPO", "/repo"))
    ap.add_argument("--n", type=int, default=300)
    a = ap.parse_args()
    sys.path.insert(0, a.repo)
    with contextlib.redirect_stdout(io.StringIO()):
        import tracklib.util.geometry as G
        from tracklib.core.obs_time import ObsTime
        from tracklib.core.spatial_index import SpatialIndex
        from tracklib.core.raster import Raster
        from tracklib.core.obs_coords import ENUCoords, GeoCoords, ECEFCoords
    from types import SimpleNamespace as NS
    rng = random.Random(7)
    pool = [0.0, -0.0, 1.0, -1.0, 0.5, 2.0, 3.0, 10.0, 0.11, 1e-9, 1e9, 5.0, 7.25, float("inf"), float("nan")]

    def num():
        r = rng.random()
        if r < 0.35:
            return rng.choice(pool)
        if r < 0.7:
            return float(rng.randint(-6, 6))
        return rng.uniform(-100, 100)

    tests = []   # (label, lean expr, python thunk, formatter)
    ev = getattr(G, "__eval")
    for _ in range(a.n):
        seg = [num() for _ in range(rng.choice([4, 4, 4, 4, 3, 5]))]
        seg2 = [num() for _ in range(4)]
        x, y = num(), num()
        p3 = [num() for _ in range(rng.choice([3, 3, 3, 2]))]
        six = [num() for _ in range(6)]
        tests.append(("cartesienne", "rl (Gen.Geometry.cartesienne %s)" % lflist(seg), lambda seg=seg: G.cartesienne(seg), lambda v: " ".join(pf(t) for t in v)))
        tests.append(("__eval", "r1 (Gen.Geometry.py__eval %s %s %s)" % (lflist(p3), lf(x), lf(y)), lambda p3=p3, x=x, y=y: ev(p3, x, y), pf))
        tests.append(("dist_point_droite", "r1 (Gen.Geometry.dist_point_droite Float.sqrt %s %s %s)" % (lflist(p3), lf(x), lf(y)),
                      lambda p3=p3, x=x, y=y: G.dist_point_droite(p3, x, y), pf))
        tests.append(("projection_droite", "r2 (Gen.Geometry.projection_droite Float.sqrt %s %s %s)" % (lflist(p3), lf(x), lf(y)),
                      lambda p3=p3, x=x, y=y: G.projection_droite(p3, x, y), lambda v: pf(v[0]) + " " + pf(v[1])))
        tests.append(("proj_segment", "r3 (Gen.Geometry.proj_segment Float.sqrt %s %s %s)" % (lflist(seg), lf(x), lf(y)),
                      lambda seg=seg, x=x, y=y: G.proj_segment(seg, x, y), lambda v: " ".join(pf(t) for t in v)))
        tests.append(("distance_to_segment", "r1 (Gen.Geometry.distance_to_segment Float.sqrt %s)" % " ".join(lf(t) for t in six),
                      lambda six=six: G.distance_to_segment(*six), pf))
        tests.append(("triangle_area", "r1 (Gen.Geometry.triangle_area %s)" % " ".join(lf(t) for t in six),
                      lambda six=six: G.triangle_area(*six), pf))
        tests.append(("isSegmentIntersects", "rb (Gen.Geometry.isSegmentIntersects %s %s)" % (lflist(seg), lflist(seg2)),
                      lambda seg=seg, seg2=seg2: G.isSegmentIntersects(seg, seg2), lambda v: "true" if v else "false"))
        # methods: a bare namespace stands for `self` (only the declared attributes are read)
        fin = lambda: rng.choice([0.0, 1.0, 2.5, 10.0, -3.0, 100.0, 0.25, float(rng.randint(-5, 20)), rng.uniform(-20, 120)])
        xmin, ymin = fin(), fin()
        xmax, ymax = xmin + abs(fin()), ymin + abs(fin())
        dX, dY = rng.choice([0.0, 1.0, 0.5, 2.0, abs(fin())]), rng.choice([1.0, 0.5, 0.0, 3.0, abs(fin())])
        cx = rng.choice([xmin, xmax, rng.uniform(xmin - 1, xmax + 1), xmin + dX * rng.randint(0, 5)])
        cy = rng.choice([ymin, ymax, rng.uniform(ymin - 1, ymax + 1), ymin + dY * rng.randint(0, 5)])
        si = NS(xmin=xmin, xmax=xmax, ymin=ymin, ymax=ymax, dX=dX, dY=dY)
        tests.append(("SpatialIndex.__getCell", "ro2 (Gen.SpatialIndex.SpatialIndex_getCell %s)" % " ".join(lf(t) for t in (xmin, xmax, ymin, ymax, dX, dY, cx, cy)),
                      lambda si=si, cx=cx, cy=cy: SpatialIndex._SpatialIndex__getCell(si, ENUCoords(cx, cy)),
                      lambda v: "none" if v is None else pf(v[0]) + " " + pf(v[1])))
        dist = abs(fin())
        tests.append(("groundDistanceToUnits", "ri (Gen.SpatialIndex.SpatialIndex_groundDistanceToUnits fFloor %s)" % " ".join(lf(t) for t in (dX, dY, dist)),
                      lambda si=si, dist=dist: SpatialIndex.groundDistanceToUnits(si, dist), str))
        nrow, ncol = rng.randint(1, 6), rng.randint(1, 6)
        ra = NS(xmin=xmin, xmax=xmax, ymin=ymin, ymax=ymax, resolution=(dX, dY), nrow=nrow, ncol=ncol)
        tests.append(("Raster.getCell", "roi (Gen.Raster.Raster_getCell fFloor fTrunc %s (%s, %s) (%d) (%d) %s %s)" % (
                      " ".join(lf(t) for t in (xmin, xmax, ymin, ymax)), lf(dX), lf(dY), nrow, ncol, lf(cx), lf(cy)),
                      lambda ra=ra, cx=cx, cy=cy: Raster.getCell(ra, ENUCoords(cx, cy)),
                      lambda v: "none" if v is None else "%d %d" % (v[0], v[1])))
        lon, lat, hgt = rng.uniform(-180, 180), rng.choice([rng.uniform(-90, 90), 90.0, -90.0, 0.0]), rng.uniform(-100, 9000)
        f3 = lambda o, names: " ".join(pf(getattr(o, k)) for k in names)
        tests.append(("GeoCoords.toECEFCoords", "r3 (Gen.ObsCoords.GeoCoords_toECEFCoords FT.pi FT.sqrt FT.sin FT.cos FT.pow %s %s %s)" % (lf(lon), lf(lat), lf(hgt)),
                      lambda lon=lon, lat=lat, hgt=hgt: GeoCoords(lon, lat, hgt).toECEFCoords(), lambda v: f3(v, "XYZ")))
        ec = GeoCoords(lon, lat, hgt).toECEFCoords()
        X, Y, Z = rng.choice([(ec.X, ec.Y, ec.Z), (0.0, 0.0, 6356752.0), (0.0, 0.0, 0.0), (rng.uniform(-7e6, 7e6), rng.uniform(-7e6, 7e6), rng.uniform(-7e6, 7e6))])
        tests.append(("ECEFCoords.toGeoCoords", "r3 (Gen.ObsCoords.ECEFCoords_toGeoCoords FT.pi FT.sqrt FT.sin FT.cos FT.atan2 FT.pow %s %s %s)" % (lf(X), lf(Y), lf(Z)),
                      lambda X=X, Y=Y, Z=Z: ECEFCoords(X, Y, Z).toGeoCoords(), lambda v: f3(v, ("lon", "lat", "hgt"))))
        bl, bt = rng.uniform(-180, 180), rng.uniform(-89, 89)
        bE = GeoCoords(bl, bt, rng.uniform(0, 500)).toECEFCoords()
        tests.append(("ECEFCoords.toENUCoords", "r3 (Gen.ObsCoords.ECEFCoords_toENUCoords FT.pi FT.sqrt FT.sin FT.cos FT.atan2 FT.pow %s %s %s %s %s %s)" % (
                      lf(X), lf(Y), lf(Z), lf(bE.X), lf(bE.Y), lf(bE.Z)),
                      lambda X=X, Y=Y, Z=Z, bE=bE: ECEFCoords(X, Y, Z).toENUCoords(bE), lambda v: f3(v, "ENU")))
        e_, n_, u_ = rng.uniform(-5e4, 5e4), rng.uniform(-5e4, 5e4), rng.uniform(-100, 3000)
        tests.append(("ENUCoords.toECEFCoords", "r3 (Gen.ObsCoords.ENUCoords_toECEFCoords FT.pi FT.sqrt FT.sin FT.cos FT.atan2 FT.pow %s %s %s %s %s %s)" % (
                      lf(e_), lf(n_), lf(u_), lf(bE.X), lf(bE.Y), lf(bE.Z)),
                      lambda e_=e_, n_=n_, u_=u_, bE=bE: ENUCoords(e_, n_, u_).toECEFCoords(bE), lambda v: f3(v, "XYZ")))
        a3, b3 = [num() for _ in range(3)], [num() for _ in range(3)]
        tests.append(("ENUCoords.distance2DTo", "r1 (Gen.ObsCoords.ENUCoords_distance2DTo FT.sqrt FT.pow %s %s)" % (" ".join(lf(t) for t in a3), " ".join(lf(t) for t in b3)),
                      lambda a3=a3, b3=b3: ENUCoords(*a3).distance2DTo(ENUCoords(*b3)), pf))
        tests.append(("ENUCoords.__sub__", "r3 (Gen.ObsCoords.ENUCoords_sub %s %s)" % (" ".join(lf(t) for t in a3), " ".join(lf(t) for t in b3)),
                      lambda a3=a3, b3=b3: ENUCoords(*a3) - ENUCoords(*b3), lambda v: f3(v, "ENU")))
        yr = rng.choice([rng.randint(-50, 2500), rng.choice([1900, 2000, 2100, 1600, 4, 100, 400, 0])])
        tests.append(("isLeapYear", "rb (Gen.ObsTime.isLeapYear (%d))" % yr, lambda yr=yr: ObsTime.isLeapYear(yr), lambda v: "true" if v else "false"))
    src = PRE + "".join("#eval IO.println (%s)\n" % t[1] for t in tests)
    path = os.path.join(LEAN, ".lake", "py2lean_selftest.lean")
    with open(path, "w") as fh:
        fh.write(src)
    p = subprocess.run(["lake", "env", "lean", path], cwd=LEAN, stdout=subprocess.PIPE, stderr=subprocess.STDOUT, text=True, timeout=900)
    out = [l for l in p.stdout.split("\n") if l.strip()]
    if p.returncode != 0 or len(out) != len(tests):
        print("lean failed / unexpected output:\n" + p.stdout[-3000:])
        return 2
    bad, per = 0, {}
    for (label, expr, thunk, fmt), got in zip(tests, out):
        try:
            with contextlib.redirect_stdout(io.StringIO()):
                want = fmt(thunk())
        except Exception as ex:   # noqa
            want = perr(ex)
        per.setdefault(label, [0, 0])
        per[label][0] += 1
        if want != got.strip():
            # math.sqrt raises ValueError on a negative / math domain: not modelled (documented)
            per[label][1] += 1
            bad += 1
            if per[label][1] <= 3:
                print("DISAGREE %s: python=%s lean=%s   %s" % (label, want, got.strip(), expr[:200]))
    for k, (n, b) in per.items():
        print("%-22s %5d inputs, %d disagreements" % (k, n, b))
    return 1 if bad else 0


if __name__ == "__main__":
    sys.exit(main())
