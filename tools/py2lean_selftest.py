#!/venv/bin/python
"""Self-test of tools/py2lean.py (not part of ./check): the generated definitions, instantiated at `Float` and
evaluated by Lean, are compared bit for bit with the real Python functions of /repo on random and edge inputs.
A disagreement means a semantic choice of PyPrelude.lean / a rule of py2lean.py is wrong for doubles.

    tools/py2lean_selftest.py [--repo /repo] [--n 300]
"""
import argparse, math, os, random, struct, subprocess, sys, io, contextlib
VERIF = os.path.dirname(os.path.dirname(os.path.abspath(__file__)))
LEAN = os.path.join(VERIF, "lean")


def bits(x):
    return struct.unpack("<Q", struct.pack("<d", float(x)))[0]


def lf(x):
    """a double as a Lean term (exact)"""
    return "(Float.ofBits %d)" % bits(x)


def lflist(xs):
    return "([" + ", ".join(lf(x) for x in xs) + "] : List Float)"


PRE = '''import TracklibVerif.Gen.Geometry
import TracklibVerif.Gen.ObsTime
import TracklibVerif.Gen.SpatialIndex
import TracklibVerif.Gen.Raster
import TracklibVerif.Gen.ObsCoords
import TracklibVerif.Gen.Utils
import TracklibVerif.Gen.Obs
import TracklibVerif.Gen.Analytics
import TracklibVerif.Gen.Track
import TracklibVerif.Gen.Interpolation
import TracklibVerif.Gen.Segmentation
import TracklibVerif.Gen.Kernel
import TracklibVerif.Gen.Operators
import TracklibVerif.Model.Geo
open TV TV.Py
def FT := TV.Geo.floatTrig
instance : IntCast Float := ⟨Float.ofInt⟩
def fFloor (x : Float) : Int := (Float.floor x).toInt64.toInt
def fTrunc (x : Float) : Int := x.toInt64.toInt
def fTruncP (x : Float) : Int := x.toInt64.toInt

def sf (x : Float) : String := if x.isNaN then "nan" else toString x.toBits
def se : Err → String | .zerodiv => "err:zerodiv" | .index => "err:index" | .type => "err:type" | .unbound => "err:unbound" | .exit => "err:exit" | .value => "err:value" | .fuel => "err:fuel" | .raised => "err:raised"
def NANF : Float := 0.0 / 0.0
def INFF : Float := 1.0 / 0.0
def r8 : M (Int × Int × Int × Int × Int × Int × Int × Int) → String
  | .ok v => s!"{v.1} {v.2.1} {v.2.2.1} {v.2.2.2.1} {v.2.2.2.2.1} {v.2.2.2.2.2.1} {v.2.2.2.2.2.2.1} {v.2.2.2.2.2.2.2}" | .error e => se e
def r4i : M (Float × Float × Float × Int) → String
  | .ok v => sf v.1 ++ " " ++ sf v.2.1 ++ " " ++ sf v.2.2.1 ++ " " ++ toString v.2.2.2 | .error e => se e
def rcells : M (List (Int × Int)) → String
  | .ok v => " ".intercalate (v.map fun c => toString c.1 ++ "," ++ toString c.2) | .error e => se e
/-- a resampled track: X Y Z of every observation, its time component stamped by the TRANSLATED readUnixTime -/
def rtrack : M (List (Float × Float × Float × Float)) → String
  | .ok v => " ".intercalate (v.map fun o => sf o.1 ++ "," ++ sf o.2.1 ++ "," ++ sf o.2.2.1 ++ "," ++
      (r8 (Gen.ObsTime.ObsTime_readUnixTime fTruncP 100000 o.2.2.2)).replace " " ":")
  | .error e => se e
def r1 : M Float → String | .ok v => sf v | .error e => se e
def r2 : M (Float × Float) → String | .ok v => sf v.1 ++ " " ++ sf v.2 | .error e => se e
def r3 : M (Float × Float × Float) → String | .ok v => sf v.1 ++ " " ++ sf v.2.1 ++ " " ++ sf v.2.2 | .error e => se e
def rl : M (List Float) → String | .ok v => " ".intercalate (v.map sf) | .error e => se e
def rb : M Bool → String | .ok v => toString v | .error e => se e
def ro2 : M (Option (Float × Float)) → String | .ok none => "none" | .ok (some v) => sf v.1 ++ " " ++ sf v.2 | .error e => se e
def roi : M (Option (Int × Int)) → String | .ok none => "none" | .ok (some v) => toString v.1 ++ " " ++ toString v.2 | .error e => se e
def ri : M Int → String | .ok v => toString v | .error e => se e
def rlog : M (List (Int × Int)) → String
  | .ok v => " ".intercalate (v.map fun c => toString c.1 ++ "," ++ toString c.2) | .error e => se e
def rtab : M (List (List Float)) → String
  | .ok v => " | ".intercalate (v.map fun r => " ".intercalate (r.map sf)) | .error e => se e
def DBLMAX : Float := Float.ofBits 0x7FEFFFFFFFFFFFFF
/-- an uninterpreted function of two ints given by its table -/
def tbl (t : List ((Int × Int) × Float)) (p : Int × Int) : Float := ((t.find? (fun e => e.1 == p)).map (·.2)).getD NANF
'''


def pf(x):
    return "nan" if x != x else str(bits(x))


def perr(ex):
    return {"ZeroDivisionError": "err:zerodiv", "IndexError": "err:index", "TypeError": "err:type",
            "UnboundLocalError": "err:unbound"}.get(type(ex).__name__, "err:" + type(ex).__name__)


def tie3_tests(a, rng, tests):
    """third generation: enumerate, item assignment, [c] * n, raise, lambdas, feature columns, write log (C11, C15)"""
    with contextlib.redirect_stdout(io.StringIO()):
        import importlib
        importlib.import_module("tracklib.algo.segmentation")
        SEG = sys.modules["tracklib.algo.segmentation"]
        from tracklib.core.obs_time import ObsTime
        from tracklib.core.obs_coords import ENUCoords
        from tracklib.core.obs import Obs
        from tracklib.core.track import Track
        import tracklib.core.kernel as K
        from tracklib.core.operators import Filter
    nan, inf = float("nan"), float("inf")
    n = max(20, a.n // 3)

    def mk_track(cols, xy=None):
        m = len(next(iter(cols.values()))) if cols else len(xy)
        t = Track()
        for i in range(m):
            x, y = xy[i] if xy else (float(i), 0.0)
            t.addObs(Obs(ENUCoords(x, y, 0.0), ObsTime.readUnixTime(1000.0 + i)))
        for name, c in cols.items():
            t.createAnalyticalFeature(name, list(c))
        return t

    def guarded(f):
        """thunk whose exceptions raised by a `raise` statement of the translated function are reported as err:raised"""
        def g():
            try:
                return f()
            except (ZeroDivisionError, IndexError, TypeError, UnboundLocalError):
                raise
            except Exception:      # KernelError (in this tree: a NameError, the class is not imported) — any `raise E(..)` statement
                return "err:raised"
        return g
    vals = [nan, 0.0, -0.0, 1.0, -1.0, 2.5, 7.0, 3.0, inf, -inf, 1e-9, 1e9]
    # ---- C11 segmentation
    for _ in range(n):
        m, k = rng.randint(1, 6), rng.randint(1, 3)
        cols = {"f%d" % j: [rng.choice(vals + [float(rng.randint(0, 4))] * 6) for _ in range(m)] for j in range(k)}
        ths = [rng.choice([1.0, 2.0, 2.5, inf, -1.0, nan]) for _ in range(rng.choice([k, k, k, k + 1, max(0, k - 1), max(0, k - 2)]))]
        mode = rng.choice([1, 2, 2, 1, 0, 3])
        names = list(cols)
        if rng.random() < 0.2:
            names = names + [names[0]]

        def run(cols=cols, ths=ths, mode=mode, names=names):
            t = mk_track(cols)
            SEG.segmentation(t, list(names), "out", list(ths), mode)
            return " ".join("%d,%d" % (i, t.getObsAnalyticalFeature("out", i)) for i in range(t.size()))
        tests.append(("segmentation", "rlog (Gen.Segmentation.segmentation DBLMAX (%d) [%s] %s (%d))" % (
            m, ", ".join(lflist(cols[c]) for c in names), lflist(ths), mode), run, str))
    # ---- C11 split on a feature name
    for _ in range(n):
        m = rng.randint(1, 7)
        mark = [rng.choice([0.0, 1.0, 1.0, 0.0, nan, 2.0]) for _ in range(m)]
        xy = [(float(rng.randint(0, 3)), float(rng.randint(0, 3))) for _ in range(m)]
        limit = rng.choice([0, 0, 1.0, 2.0, 3.5, -1.0, 0.0])
        t0 = mk_track({"m": mark}, xy)
        table = []
        for b in range(0, m + 1):
            for e in range(-1, m):
                try:
                    with contextlib.redirect_stdout(io.StringIO()):
                        table.append(((b, e), float(t0.extract(b, e).length())))
                except Exception:
                    pass

        def run(mark=mark, xy=xy, limit=limit):
            t = mk_track({"m": mark}, xy)
            t.uid = "u"
            tc = SEG.split(t, "m", limit)
            return " ".join(",".join(str(tr.uid).split(".")[-2:]) for tr in tc)
        tests.append(("split(feature)", "rlog (Gen.Segmentation.split_feature (%d) %s %s (tbl [%s]))" % (
            m, lflist(mark), lf(limit), ", ".join("((%d, %d), %s)" % (b, e, lf(v)) for (b, e), v in table)), run, str))
    # ---- C12 the M table of optimalPartition (`return backward(M)` is translated as `return M`)
    import numpy as np
    for _ in range(n):
        m = rng.choice([0, 1, 2, 3, 4, 5, 5, 6, 6, 7])
        C = [[float(rng.choice([0, 1, 1, 2, 3, 5, 8])) if rng.random() < 0.8 else rng.uniform(0, 9) for _ in range(m)] for _ in range(m)]
        if rng.random() < 0.1 and m:
            C[rng.randrange(m)][rng.randrange(m)] = rng.choice([nan, inf])
        mode = rng.choice([0, 0, 1, 1, 2, -1])

        def run(C=C, mode=mode, m=m):
            old = SEG.backward
            SEG.backward = lambda M: M
            try:
                M = SEG.optimalPartition(np.array(C, dtype=float).reshape((m, m)) if m else np.zeros((0, 0)), mode, False)
            except ValueError:
                return "err:value"
            finally:
                SEG.backward = old
            return " | ".join(" ".join(pf(x) for x in r) for r in M)
        tests.append(("optimalPartition(M)", "rtab (Gen.Segmentation.optimalPartition_tables ([%s] : List (List Float)) (%d) false)" % (
            ", ".join(lflist(r) for r in C), mode), run, str))
    # ---- C15 Kernel.evaluate / toSlidingWindow / Filter.execute with a Kernel object
    for _ in range(n):
        ca, cb = rng.choice([0.0, 1.0, -0.5, 0.25]), rng.choice([0.0, 1.0, 2.0, -1.0])
        f = lambda x, ca=ca, cb=cb: ca * x + cb
        lfun = "(fun (x : Float) => %s * x + %s)" % (lf(ca), lf(cb))
        sup = rng.choice([0.5, 0.99, 1.0, 1.5, 2.0, 2.5, 3.7, 4.0, inf, nan, rng.uniform(0.2, 5)])
        x = rng.choice(vals + [sup, -sup, rng.uniform(-6, 6)])
        tests.append(("Kernel.evaluate", "r1 (Gen.Kernel.Kernel_evaluate %s %s %s)" % (lf(sup), lfun, lf(x)),
                      lambda f=f, sup=sup, x=x: K.Kernel(f, sup).evaluate(x), pf))
        if sup == sup and sup != inf:
            tests.append(("Kernel.toSlidingWindow", "rl (Gen.Kernel.Kernel_toSlidingWindow fTrunc %s %s)" % (lf(sup), lfun),
                          guarded(lambda f=f, sup=sup: " ".join(pf(v) for v in K.Kernel(f, sup).toSlidingWindow())), str))
        m = rng.randint(0 if False else 1, 7)
        sig = [rng.choice([nan, 0.0, 1.0, 2.0, -1.5, 4.0, rng.uniform(-3, 3)]) for _ in range(m)]
        w = [rng.choice([0.0, 1.0, 0.5, 0.25, 2.0, -1.0]) for _ in range(rng.choice([1, 3, 3, 5, 5, 7, 2, 4, 9]))]
        fb = rng.choice([True, False, None])

        def run(sig=sig, w=w, fb=fb):
            t = mk_track({"a": sig})
            ko = K.Kernel(lambda x: 1.0, 1.0)
            if fb is not None:
                ko.setFilterBoundary(fb)
            ko.toSlidingWindow = lambda w=w: list(w)
            return " ".join(pf(v) for v in Filter().execute(t, "a", ko, "out"))
        tests.append(("Filter.execute(Kernel)", "rl (Gen.Operators.Filter_execute_kernel fTrunc (%d) %s %s %s)" % (
            m, lflist(sig), "true" if fb else "false", lflist(w)), guarded(run), str))


def more_tests(a, rng, tests, NS):
    """loops, computed indices, records (second generation of the translator)"""
    with contextlib.redirect_stdout(io.StringIO()):
        import tracklib.util.geometry as G
        import tracklib.core.utils as U
        import tracklib.algo.analytics as AN
        import tracklib.algo.interpolation as IP
        from tracklib.core.obs_time import ObsTime
        from tracklib.core.obs_coords import ENUCoords
        from tracklib.core.obs import Obs
        from tracklib.core.track import Track
        from tracklib.core.spatial_index import SpatialIndex
    nan, inf = float("nan"), float("inf")
    stamp = lambda t: "%d %d %d %d %d %d %d %d" % (t.year, t.month, t.day, t.hour, t.min, t.sec, t.ms, t.zone)
    n = max(20, a.n // 3)
    # ---- C03
    for _ in range(n):
        e = rng.choice([0.0, 86399.999, 951782400.0, 951868799.5, 1e9 + 0.123, rng.uniform(0, 4.1e9), float(rng.randint(0, 2 ** 31)),
                        rng.uniform(0, 1e8), 68256000.0 + rng.randint(-2, 2), -1.0, rng.uniform(-1e5, 0)])
        tests.append(("readUnixTime", "r8 (Gen.ObsTime.ObsTime_readUnixTime fTrunc 1000 %s)" % lf(e), lambda e=e: ObsTime.readUnixTime(e), stamp))
        y, mo = rng.choice([rng.randint(1960, 2110), 1970, 2000, 2100]), rng.choice([rng.randint(1, 12), 13, 14, 0, 2, 3])
        f7 = (y, mo, rng.randint(1, 31), rng.randint(0, 23), rng.randint(0, 59), rng.randint(0, 59), rng.randint(0, 999))
        tests.append(("toAbsTime", "r1 (Gen.ObsTime.ObsTime_toAbsTime %s)" % " ".join("(%d)" % v for v in f7),
                      lambda f7=f7: ObsTime(*f7).toAbsTime(), pf))
    # ---- C19
    vals = [nan, 0.0, -0.0, 1.0, -1.0, 2.5, 7.0, 3.0, inf, -inf, 1e-9, 1e9]
    for _ in range(n):
        l = [rng.choice(vals + [rng.uniform(-50, 50)]) for _ in range(rng.randint(0, 8))]
        if rng.random() < 0.15:
            l = [nan] * rng.randint(1, 4)
        L = lflist(l)
        tests.append(("co_sum", "r1 (Gen.Utils.co_sum %s)" % L, lambda l=l: U.co_sum(list(l)), pf))
        tests.append(("co_min", "r1 (Gen.Utils.co_min NANF %s)" % L, lambda l=l: U.co_min(list(l)), pf))
        tests.append(("co_max", "r1 (Gen.Utils.co_max NANF %s)" % L, lambda l=l: U.co_max(list(l)), pf))
        tests.append(("co_count", "ri (Gen.Utils.co_count %s)" % L, lambda l=l: U.co_count(list(l)), str))
        tests.append(("co_avg", "r1 (Gen.Utils.co_avg NANF %s)" % L, lambda l=l: U.co_avg(list(l)), pf))
        tests.append(("co_median", "r1 (Gen.Utils.co_median NANF fTrunc %s)" % L, lambda l=l: U.co_median(list(l)), pf))
        x = rng.choice(vals)
        tests.append(("isnan", "rb (Gen.Utils.isnan %s)" % lf(x), lambda x=x: U.isnan(x), lambda v: "true" if v else "false"))
    # ---- C20 / C10
    for _ in range(n):
        k = rng.randint(0, 6)
        X = [float(rng.randint(-4, 4)) if rng.random() < 0.6 else rng.uniform(-5, 5) for _ in range(k)]
        Y = [float(rng.randint(-4, 4)) if rng.random() < 0.6 else rng.uniform(-5, 5) for _ in range(k)]
        if k > 1 and rng.random() < 0.3:
            j = rng.randrange(k - 1)
            X[j + 1], Y[j + 1] = X[j], Y[j]
        if rng.random() < 0.15:
            Y = Y[:-1] if Y and rng.random() < 0.5 else Y + [1.0]
        x, y = rng.choice([rng.uniform(-6, 6), float(rng.randint(-4, 4)), inf]), rng.uniform(-6, 6)
        tests.append(("proj_polyligne", "r4i (Gen.Geometry.proj_polyligne INFF Float.sqrt FT.pow %s %s %s %s)" % (lflist(X), lflist(Y), lf(x), lf(y)),
                      lambda X=X, Y=Y, x=x, y=y: G.proj_polyligne(list(X), list(Y), x, y),
                      lambda v: "%s %s %s %d" % (pf(v[0]), pf(v[1]), pf(v[2]), v[3])))
    # ---- C08
    for _ in range(n):
        cs, ls = rng.randint(1, 5), rng.randint(1, 5)
        pt = lambda: [rng.choice([rng.uniform(-1, 6), rng.randint(0, 5) + 0.5, float(rng.randint(0, 5))]) for _ in range(rng.choice([2, 2, 2, 2, 1, 3]))]
        c1, c2 = pt(), pt()
        tests.append(("__cellsCrossSegment", "rcells (Gen.SpatialIndex.SpatialIndex_cellsCrossSegment fFloor (%d) (%d) %s %s)" % (cs, ls, lflist(c1), lflist(c2)),
                      lambda cs=cs, ls=ls, c1=c1, c2=c2: SpatialIndex._SpatialIndex__cellsCrossSegment(NS(csize=cs, lsize=ls), c1, c2),
                      lambda v: " ".join("%d,%d" % c for c in v)))
    # ---- tracks: C17, C04, C05
    def mk_track(k, sorted_t=True, pause=False):
        ts, t = [], rng.choice([0.0, 1e6, 1.5e9]) + rng.randint(0, 1000)
        for _ in range(k):
            ts.append(t)
            t += rng.choice([1.0, 2.0, 0.5, 10.0, 0.0 if pause else 3.0, rng.uniform(0.001, 30)])
        if not sorted_t:
            rng.shuffle(ts)
        pts, last = [], (0.0, 0.0)
        for _ in range(k):
            p = last if (pause and rng.random() < 0.2) else (float(rng.randint(-20, 20)) if rng.random() < 0.5 else rng.uniform(-30, 30), rng.uniform(-30, 30))
            last = p
            pts.append((p[0], p[1], rng.choice([0.0, rng.uniform(0, 100)])))
        obs = [Obs(ENUCoords(*p), ObsTime.readUnixTime(t)) for p, t in zip(pts, ts)]
        tr = Track(obs)
        recs = [(o.position.E, o.position.N, o.position.U, o.timestamp.toAbsTime()) for o in obs]
        return tr, recs
    ltrack = lambda recs: "([" + ", ".join("(%s, %s, %s, %s)" % tuple(lf(v) for v in r) for r in recs) + "] : List (Float × Float × Float × Float))"
    for _ in range(n):
        tr, recs = mk_track(rng.randint(0, 6), pause=True)
        i = rng.randint(-len(recs) - 2, len(recs) + 2)
        tests.append(("ds", "r1 (Gen.Analytics.analytics_ds FT.sqrt FT.pow %s (%d))" % (ltrack(recs), i), lambda tr=tr, i=i: float(AN.ds(tr, i)), pf))
        tests.append(("speed", "r1 (Gen.Analytics.analytics_speed NANF FT.sqrt FT.pow %s (%d))" % (ltrack(recs), i), lambda tr=tr, i=i: AN.speed(tr, i), pf))
    for _ in range(n):
        k = rng.randint(0, 12)
        keys = sorted(rng.randint(0, 30) for _ in range(k)) if rng.random() < 0.8 else [rng.randint(0, 30) for _ in range(k)]
        q = rng.randint(-2, 33)
        def ins(keys=keys, q=q):
            tr = Track([Obs(ENUCoords(0.0, 0.0, 0.0), ObsTime.readUnixTime(float(1000 + v))) for v in keys])
            return tr._Track__getInsertionIndex(ObsTime.readUnixTime(float(1000 + q)))
        tests.append(("__getInsertionIndex", "ri (Gen.Track.Track_getInsertionIndex Float.log fTrunc 200 ([%s] : List Int) (%d))" % (", ".join("(%d)" % v for v in keys), q), ins, str))
    def resampled(tr):
        return " ".join("%s,%s,%s,%s" % (pf(o.position.E), pf(o.position.N), pf(o.position.U), stamp(o.timestamp).replace(" ", ":")) for o in tr.getObsList())
    rs, rt, pts_ = getattr(IP, "__resampleSpatial"), getattr(IP, "__resampleTemporal"), IP.prepareTimeSampling
    for _ in range(n):
        tr, recs = mk_track(rng.randint(0, 6), pause=rng.random() < 0.3)
        ds_ = rng.choice([1.0, 5.0, 0.5, 13.0, rng.uniform(0.5, 40), 0.0, -3.0])
        def f_rs(tr=tr, ds_=ds_):
            t2 = tr.copy(); rs(t2, ds_); return t2
        tests.append(("__resampleSpatial", "rtrack (Gen.Interpolation.resampleSpatial FT.sqrt FT.pow fTrunc 1000 %s %s)" % (ltrack(recs), lf(ds_)), f_rs, resampled))
        tr, recs = mk_track(rng.randint(0, 6), sorted_t=rng.random() < 0.85, pause=rng.random() < 0.3)
        dt_ = rng.choice([1.0, 2.0, 0.5, 7.0, rng.uniform(0.3, 20)])
        def f_rt(tr=tr, ref=dt_):
            t2 = tr.copy(); rt(t2, ref); return t2
        tests.append(("__resampleTemporal(number)", "rtrack (Gen.Interpolation.resampleTemporal_number 100000 %s %s)" % (ltrack(recs), lf(dt_)), f_rt, resampled))
        t0 = recs[0][3] if recs else 0.0
        inst = [t0 + rng.choice([rng.uniform(-5, 60), float(rng.randint(0, 40))]) for _ in range(rng.randint(0, 5))]
        def f_rl(tr=tr, inst=inst):
            t2 = tr.copy(); rt(t2, [ObsTime.readUnixTime(v) for v in inst]); return t2
        inst_abs = [ObsTime.readUnixTime(v).toAbsTime() for v in inst]
        tests.append(("__resampleTemporal(list)", "rtrack (Gen.Interpolation.resampleTemporal_list 100000 %s %s)" % (ltrack(recs), lflist(inst_abs)), f_rl, resampled))
        tr2, recs2 = mk_track(rng.randint(0, 5))
        def f_rk(tr=tr, tr2=tr2):
            t2 = tr.copy(); rt(t2, tr2); return t2
        tests.append(("__resampleTemporal(track)", "rtrack (Gen.Interpolation.resampleTemporal_track 100000 %s %s)" % (ltrack(recs), ltrack(recs2)), f_rk, resampled))
        a0, b0 = rng.uniform(0, 100), rng.uniform(0, 200)
        tests.append(("prepareTimeSampling(number)", "rl (Gen.Interpolation.prepareTimeSampling_number 100000 %s %s %s)" % (lf(dt_), lf(a0), lf(a0 + b0)),
                      lambda dt_=dt_, a0=a0, b0=b0: pts_(dt_, a0, a0 + b0), lambda v: " ".join(pf(t) for t in v)))


def main():
    ap = argparse.ArgumentParser()
    ap.add_argument("--repo", default=os.environ.get("TRACKLIB_REPO", "/repo"))
    ap.add_argument("--n", type=int, default=300)
    a = ap.parse_args()
    sys.path.insert(0, a.repo)
    with contextlib.redirect_stdout(io.StringIO()):
        import tracklib.util.geometry as G
        from tracklib.core.obs_time import ObsTime
        from tracklib.core.spatial_index import SpatialIndex
        from tracklib.core.raster import Raster
        from tracklib.core.obs_coords import ENUCoords, GeoCoords, ECEFCoords
    from types import SimpleNamespace as NS
    rng = random.Random(7)
    pool = [0.0, -0.0, 1.0, -1.0, 0.5, 2.0, 3.0, 10.0, 0.11, 1e-9, 1e9, 5.0, 7.25, float("inf"), float("nan")]

    def num():
        r = rng.random()
        if r < 0.35:
            return rng.choice(pool)
        if r < 0.7:
            return float(rng.randint(-6, 6))
        return rng.uniform(-100, 100)

    tests = []   # (label, lean expr, python thunk, formatter)
    ev = getattr(G, "__eval")
    for _ in range(a.n):
        seg = [num() for _ in range(rng.choice([4, 4, 4, 4, 3, 5]))]
        seg2 = [num() for _ in range(4)]
        x, y = num(), num()
        p3 = [num() for _ in range(rng.choice([3, 3, 3, 2]))]
        six = [num() for _ in range(6)]
        tests.append(("cartesienne", "rl (Gen.Geometry.cartesienne %s)" % lflist(seg), lambda seg=seg: G.cartesienne(seg), lambda v: " ".join(pf(t) for t in v)))
        tests.append(("__eval", "r1 (Gen.Geometry.py__eval %s %s %s)" % (lflist(p3), lf(x), lf(y)), lambda p3=p3, x=x, y=y: ev(p3, x, y), pf))
        tests.append(("dist_point_droite", "r1 (Gen.Geometry.dist_point_droite Float.sqrt %s %s %s)" % (lflist(p3), lf(x), lf(y)),
                      lambda p3=p3, x=x, y=y: G.dist_point_droite(p3, x, y), pf))
        tests.append(("projection_droite", "r2 (Gen.Geometry.projection_droite Float.sqrt %s %s %s)" % (lflist(p3), lf(x), lf(y)),
                      lambda p3=p3, x=x, y=y: G.projection_droite(p3, x, y), lambda v: pf(v[0]) + " " + pf(v[1])))
        tests.append(("proj_segment", "r3 (Gen.Geometry.proj_segment Float.sqrt %s %s %s)" % (lflist(seg), lf(x), lf(y)),
                      lambda seg=seg, x=x, y=y: G.proj_segment(seg, x, y), lambda v: " ".join(pf(t) for t in v)))
        tests.append(("distance_to_segment", "r1 (Gen.Geometry.distance_to_segment Float.sqrt %s)" % " ".join(lf(t) for t in six),
                      lambda six=six: G.distance_to_segment(*six), pf))
        tests.append(("triangle_area", "r1 (Gen.Geometry.triangle_area %s)" % " ".join(lf(t) for t in six),
                      lambda six=six: G.triangle_area(*six), pf))
        tests.append(("isSegmentIntersects", "rb (Gen.Geometry.isSegmentIntersects %s %s)" % (lflist(seg), lflist(seg2)),
                      lambda seg=seg, seg2=seg2: G.isSegmentIntersects(seg, seg2), lambda v: "true" if v else "false"))
        # methods: a bare namespace stands for `self` (only the declared attributes are read)
        fin = lambda: rng.choice([0.0, 1.0, 2.5, 10.0, -3.0, 100.0, 0.25, float(rng.randint(-5, 20)), rng.uniform(-20, 120)])
        xmin, ymin = fin(), fin()
        xmax, ymax = xmin + abs(fin()), ymin + abs(fin())
        dX, dY = rng.choice([0.0, 1.0, 0.5, 2.0, abs(fin())]), rng.choice([1.0, 0.5, 0.0, 3.0, abs(fin())])
        cx = rng.choice([xmin, xmax, rng.uniform(xmin - 1, xmax + 1), xmin + dX * rng.randint(0, 5)])
        cy = rng.choice([ymin, ymax, rng.uniform(ymin - 1, ymax + 1), ymin + dY * rng.randint(0, 5)])
        csz, lsz = rng.randint(1, 8), rng.randint(1, 8)
        si = NS(xmin=xmin, xmax=xmax, ymin=ymin, ymax=ymax, dX=dX, dY=dY, csize=csz, lsize=lsz)
        tests.append(("SpatialIndex.__getCell", "ro2 (Gen.SpatialIndex.SpatialIndex_getCell %s (%d) (%d) %s)" % (
                      " ".join(lf(t) for t in (xmin, xmax, ymin, ymax, dX, dY)), csz, lsz, " ".join(lf(t) for t in (cx, cy))),
                      lambda si=si, cx=cx, cy=cy: SpatialIndex._SpatialIndex__getCell(si, ENUCoords(cx, cy)),
                      lambda v: "none" if v is None else pf(v[0]) + " " + pf(v[1])))
        dist = abs(fin())
        tests.append(("groundDistanceToUnits", "ri (Gen.SpatialIndex.SpatialIndex_groundDistanceToUnits fFloor %s)" % " ".join(lf(t) for t in (dX, dY, dist)),
                      lambda si=si, dist=dist: SpatialIndex.groundDistanceToUnits(si, dist), str))
        nrow, ncol = rng.randint(1, 6), rng.randint(1, 6)
        ra = NS(xmin=xmin, xmax=xmax, ymin=ymin, ymax=ymax, resolution=(dX, dY), nrow=nrow, ncol=ncol)
        tests.append(("Raster.getCell", "roi (Gen.Raster.Raster_getCell fFloor fTrunc %s (%s, %s) (%d) (%d) %s %s)" % (
                      " ".join(lf(t) for t in (xmin, xmax, ymin, ymax)), lf(dX), lf(dY), nrow, ncol, lf(cx), lf(cy)),
                      lambda ra=ra, cx=cx, cy=cy: Raster.getCell(ra, ENUCoords(cx, cy)),
                      lambda v: "none" if v is None else "%d %d" % (v[0], v[1])))
        lon, lat, hgt = rng.uniform(-180, 180), rng.choice([rng.uniform(-90, 90), 90.0, -90.0, 0.0]), rng.uniform(-100, 9000)
        f3 = lambda o, names: " ".join(pf(getattr(o, k)) for k in names)
        tests.append(("GeoCoords.toECEFCoords", "r3 (Gen.ObsCoords.GeoCoords_toECEFCoords FT.pi FT.sqrt FT.sin FT.cos FT.pow %s %s %s)" % (lf(lon), lf(lat), lf(hgt)),
                      lambda lon=lon, lat=lat, hgt=hgt: GeoCoords(lon, lat, hgt).toECEFCoords(), lambda v: f3(v, "XYZ")))
        ec = GeoCoords(lon, lat, hgt).toECEFCoords()
        X, Y, Z = rng.choice([(ec.X, ec.Y, ec.Z), (0.0, 0.0, 6356752.0), (0.0, 0.0, 0.0), (rng.uniform(-7e6, 7e6), rng.uniform(-7e6, 7e6), rng.uniform(-7e6, 7e6))])
        tests.append(("ECEFCoords.toGeoCoords", "r3 (Gen.ObsCoords.ECEFCoords_toGeoCoords FT.pi FT.sqrt FT.sin FT.cos FT.atan2 FT.pow %s %s %s)" % (lf(X), lf(Y), lf(Z)),
                      lambda X=X, Y=Y, Z=Z: ECEFCoords(X, Y, Z).toGeoCoords(), lambda v: f3(v, ("lon", "lat", "hgt"))))
        bl, bt = rng.uniform(-180, 180), rng.uniform(-89, 89)
        bE = GeoCoords(bl, bt, rng.uniform(0, 500)).toECEFCoords()
        tests.append(("ECEFCoords.toENUCoords", "r3 (Gen.ObsCoords.ECEFCoords_toENUCoords FT.pi FT.sqrt FT.sin FT.cos FT.atan2 FT.pow %s %s %s %s %s %s)" % (
                      lf(X), lf(Y), lf(Z), lf(bE.X), lf(bE.Y), lf(bE.Z)),
                      lambda X=X, Y=Y, Z=Z, bE=bE: ECEFCoords(X, Y, Z).toENUCoords(bE), lambda v: f3(v, "ENU")))
        e_, n_, u_ = rng.uniform(-5e4, 5e4), rng.uniform(-5e4, 5e4), rng.uniform(-100, 3000)
        tests.append(("ENUCoords.toECEFCoords", "r3 (Gen.ObsCoords.ENUCoords_toECEFCoords FT.pi FT.sqrt FT.sin FT.cos FT.atan2 FT.pow %s %s %s %s %s %s)" % (
                      lf(e_), lf(n_), lf(u_), lf(bE.X), lf(bE.Y), lf(bE.Z)),
                      lambda e_=e_, n_=n_, u_=u_, bE=bE: ENUCoords(e_, n_, u_).toECEFCoords(bE), lambda v: f3(v, "XYZ")))
        a3, b3 = [num() for _ in range(3)], [num() for _ in range(3)]
        tests.append(("ENUCoords.distance2DTo", "r1 (Gen.ObsCoords.ENUCoords_distance2DTo FT.sqrt FT.pow %s %s)" % (" ".join(lf(t) for t in a3), " ".join(lf(t) for t in b3)),
                      lambda a3=a3, b3=b3: ENUCoords(*a3).distance2DTo(ENUCoords(*b3)), pf))
        tests.append(("ENUCoords.__sub__", "r3 (Gen.ObsCoords.ENUCoords_sub %s %s)" % (" ".join(lf(t) for t in a3), " ".join(lf(t) for t in b3)),
                      lambda a3=a3, b3=b3: ENUCoords(*a3) - ENUCoords(*b3), lambda v: f3(v, "ENU")))
        yr = rng.choice([rng.randint(-50, 2500), rng.choice([1900, 2000, 2100, 1600, 4, 100, 400, 0])])
        tests.append(("isLeapYear", "rb (Gen.ObsTime.isLeapYear (%d))" % yr, lambda yr=yr: ObsTime.isLeapYear(yr), lambda v: "true" if v else "false"))
    more_tests(a, rng, tests, NS)
    tie3_tests(a, rng, tests)
    src = PRE + "".join("#eval IO.println (\"@\" ++ (%s))\n" % t[1] for t in tests)
    path = os.path.join(LEAN, ".lake", "py2lean_selftest.lean")
    with open(path, "w") as fh:
        fh.write(src)
    p = subprocess.run(["lake", "env", "lean", path], cwd=LEAN, stdout=subprocess.PIPE, stderr=subprocess.STDOUT, text=True, timeout=900)
    out = [l[1:] for l in p.stdout.split("\n") if l.startswith("@")]
    if p.returncode != 0 or len(out) != len(tests):
        print("lean failed / unexpected output (%d results for %d tests):\n" % (len(out), len(tests))
              + "\n".join(l for l in p.stdout.split("\n") if not l.startswith("@"))[-3000:])
        return 2
    bad, per = 0, {}
    for (label, expr, thunk, fmt), got in zip(tests, out):
        try:
            with contextlib.redirect_stdout(io.StringIO()):
                want = fmt(thunk())
        except Exception as ex:   # noqa
            want = perr(ex)
        per.setdefault(label, [0, 0])
        per[label][0] += 1
        if want != got.strip():
            # math.sqrt raises ValueError on a negative / math domain: not modelled (documented)
            per[label][1] += 1
            bad += 1
            if per[label][1] <= 3:
                print("DISAGREE %s: python=%s lean=%s   %s" % (label, want, got.strip(), expr[:200]))
    for k, (n, b) in per.items():
        print("%-22s %5d inputs, %d disagreements" % (k, n, b))
    return 1 if bad else 0


if __name__ == "__main__":
    sys.exit(main())
