#!/venv/bin/python
"""Regenerates MANIFEST.json from the property modules in harness/props (one source of truth)."""
import sys, os, json
sys.dont_write_bytecode = True
V = os.path.dirname(os.path.dirname(os.path.abspath(__file__)))
sys.path.insert(0, os.path.join(V, "harness"))
sys.path.insert(0, "/repo")
import engine

props = [json.loads(l) for l in open(os.path.join(V, "properties.jsonl"))]
checks, na = [], []
for p in props:
    pid = p["id"]
    path = os.path.join(V, "harness", "props", pid.lower() + ".py")
    if not os.path.exists(path):
        na.append({"property_id": pid, "reason": "check not built yet: the Lean model, theorems and correspondence for this property are planned in DESIGN.md section 5 but not finished; nothing is claimed for it until they are"})
        continue
    P = engine.load_prop(pid)
    names = [t[1].split(".")[-1] for t in P.theorems]
    text = ("Machine-checked Lean 4 theorems about a hand-written executable model of the anchored code (%s): %s. "
            "Each run re-audits them (#print axioms within propext/Classical.choice/Quot.sound, no sorry) and re-ties the model to /repo's working tree by a "
            "correspondence check (real tracklib in-process vs the model's executable definitions through the native driver) on corpus + enumerated small scopes + seeded random cases, "
            "plus the property's independent oracle on the implementation's outputs (transfer check)." % (P.modelled, ", ".join(names)))
    if P.tie_modules:
        tie_names = [t[1].split(".")[-1] for t in P.theorems if t[0] in P.tie_modules]
        text += (" Translation tie: tools/py2lean.py re-translates the whitelisted pure functions of this property from /repo's current source into Lean on every run "
                 "(lean/TracklibVerif/Gen) and the theorems %s (%s) prove the translated definitions equal to the hand-written model on all arguments; a change to such a "
                 "function breaks that proof obligation even when no sampled input shows it." % (", ".join(tie_names), ", ".join(P.tie_modules)))
    if P.partial:
        text += " Partial theorems: " + "; ".join(P.partial) + "."
    if P.open_statements:
        text += " Not proved (rests on correspondence + sampling): " + "; ".join(P.open_statements) + "."
    checks.append({
        "property_id": pid,
        "quick_cmd": "./check %s --tier quick" % pid,
        "thorough_cmd": "./check %s --tier thorough" % pid,
        "evidence_file": "evidence/%s.json" % pid,
        "replay_cmd_template": "./check %s --replay {path}" % pid,
        "engine": "lean4-model+correspondence",
        "level_claimed": {"category": "proof", "text": text, "design_ref": P.design_ref},
        "level_note": "Trusted: Lean 4.33 kernel, Mathlib lemmas imported, axioms propext/Classical.choice/Quot.sound only; the model is hand-written and tied to the code by the correspondence check (bounded by its generators)" + (" and, for the whitelisted pure functions, by the py2lean translation tie (trusted: the ~700-line syntax-directed translator, Model/PyPrelude.lean's rendering of float /, ==, fabs, min/max, indexing, the declared signatures; libm functions uninterpreted)" if P.tie_modules else "") + "; CPython/numpy/libm and IEEE-754 rounding are outside the theorems (sampled). " + " ".join(P.trusted),
        "technique": "Lean 4 theorems over an executable model + differential correspondence with the Python implementation" + (" + source-to-Lean translation tie (py2lean) with machine-checked equality to the model" if P.tie_modules else ""),
    })
m = {
    "version": 1,
    "setup_cmd": "./setup.sh",
    "hooks": {
        "guard": "TRACKLIB_VERIF",
        "enable": "none needed: the harness imports tracklib from /repo's working tree in-process and reaches private members through Python name mangling; no source hooks exist",
        "baseline_off_cmd": "cd /repo && /venv/bin/python -m pytest -ra -q -p no:cacheprovider --timeout=900 --continue-on-collection-errors",
        "source_commits": [],
        "add_only": True,
    },
    "engines": [{"name": "lean4-model+correspondence", "path": "harness/engine.py",
                 "serves_properties": [c["property_id"] for c in checks],
                 "kind_free_text": "Lean 4 library lean/TracklibVerif (Model/, Lemmas/, Props/ = property theorems), native line-protocol driver lean/Driver.lean, Python harness harness/engine.py + harness/props/*.py (generators, adapters to real tracklib, oracles), known_findings.json"}],
    "checks": checks,
    "not_applicable": na,
    "notes": "Defects of tracklib found while building the checks were repaired by 'fix:' commits in /repo (listed as 'fixed' entries in known_findings.json) or are listed there as findings. See DESIGN.md.",
}
json.dump(m, open(os.path.join(V, "MANIFEST.json"), "w"), indent=1)
import jsonschema
jsonschema.validate(m, json.load(open("/root/.vp/MANIFEST.schema.json")))
print("MANIFEST.json: %d checks, %d not yet claimed" % (len(checks), len(na)))
for f in sorted(os.listdir(os.path.join(V, "evidence"))) if os.path.isdir(os.path.join(V, "evidence")) else []:
    jsonschema.validate(json.load(open(os.path.join(V, "evidence", f))), json.load(open("/root/.vp/EVIDENCE.schema.json")))
    print("evidence ok:", f)
